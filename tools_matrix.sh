#!/bin/sh
# usage: tools_matrix.sh [out-file]   -- runs every seeded change against the quick check of its own property in a scratch
# worktree of /repo HEAD (EINX_REPO), so that /repo itself is never touched. Prints "<mutant> <property> caught|MISSED".
HERE="$(cd "$(dirname "$0")" && pwd)"
out="${1:-/tmp/mut/matrix.txt}"; mkdir -p /tmp/mut "$(dirname "$out")"
: > "$out"
for d in "$HERE"/seeded/*/; do
  n=$(basename "$d"); p=${n%%_*}
  wt=/tmp/mut/mx_$$_$n
  git -C /repo worktree add --detach "$wt" >/dev/null 2>&1 || continue
  if git -C "$wt" apply "$d/patch.diff" 2>/dev/null; then
    res=$(EINX_REPO="$wt" VERIF_SEED=${VERIF_SEED:-1} "$HERE"/check "$p" --tier quick 2>&1)
    rc=$?
    if [ $rc = 1 ]; then verdict=caught; elif [ $rc = 0 ]; then verdict=MISSED; else verdict="ERROR($rc)"; fi
    bucket=$(echo "$res" | grep -m1 "^violation" | cut -c1-160)
    echo "$n $p $verdict | $bucket" >> "$out"
  else
    echo "$n $p NOAPPLY" >> "$out"
  fi
  git -C /repo worktree remove --force "$wt" >/dev/null 2>&1
done
cat "$out"

#!/bin/sh
# usage: tools_mut.sh <patch.diff> <PROP> [more props]   -- apply a seeded change to /repo, run quick checks, undo
patch="$1"; shift
cd /repo || exit 2
case "$patch" in /*) ;; *) patch="/verif/$patch";; esac; if ! git apply --check "$patch" 2>/dev/null; then echo "PATCH DOES NOT APPLY: $patch"; exit 3; fi
git apply "$patch"
cd /verif
for p in "$@"; do
  out=$(VERIF_SEED=${VERIF_SEED:-1} ./check "$p" --tier ${TIER:-quick} 2>&1)
  rc=$?
  echo "== $p rc=$rc"; echo "$out" | grep -E "^VIOLATION|^violation|HARNESS" | cut -c1-300 | head -5
done
git -C /repo checkout -- .
git -C /repo status --short | head -3

#!/bin/sh
# usage: tools_keep_mutant.sh <agent_out_dir> <seeded_name>
# Confirms a seeded change in a scratch worktree of /repo HEAD: applies, suite passes (85), demo fails with it and
# passes without it. On success stores it under /verif/seeded/<name>/ (patch.diff, demo.py, meta.json).
src="$1"; name="$2"
mkdir -p /tmp/mut; wt=/tmp/mut/verify_$$
git -C /repo worktree add --detach "$wt" >/dev/null 2>&1 || exit 2
cleanup() { git -C /repo worktree remove --force "$wt" >/dev/null 2>&1; }
cd "$wt"
demo_clean=$(PYTHONPATH="$wt" /venv/bin/python "$src/demo.py" >/dev/null 2>&1; echo $?)
if ! git apply "$src/patch.diff" 2>/dev/null; then echo "$name: PATCH-DOES-NOT-APPLY"; cleanup; exit 3; fi
suite=$(PYTHONPATH="$wt" /venv/bin/python -m pytest -q -p no:cacheprovider -n 4 test 2>&1 | tail -1)
demo_mut=$(PYTHONPATH="$wt" /venv/bin/python "$src/demo.py" >/dev/null 2>&1; echo $?)
cleanup
ok=no
case "$suite" in *"85 passed"*) if [ "$demo_clean" = 0 ] && [ "$demo_mut" != 0 ]; then ok=yes; fi;; esac
echo "$name: suite=[$suite] demo_clean_rc=$demo_clean demo_mutant_rc=$demo_mut keep=$ok"
if [ $ok = yes ]; then
  mkdir -p /verif/seeded/$name
  cp "$src/patch.diff" "$src/demo.py" /verif/seeded/$name/
  /venv/bin/python - "$src/meta.json" "/verif/seeded/$name/meta.json" "$suite" "$demo_clean" "$demo_mut" <<'PY'
import json, sys
m = json.load(open(sys.argv[1]))
m["confirmed"] = {"base": "scratch worktree of /repo HEAD (with fix: commits)", "suite": sys.argv[3], "demo_rc_without_change": int(sys.argv[4]), "demo_rc_with_change": int(sys.argv[5]),
                  "commands": ["git apply patch.diff", "PYTHONPATH=<wt> /venv/bin/python -m pytest -q -p no:cacheprovider -n 4 test", "PYTHONPATH=<wt> /venv/bin/python demo.py"]}
json.dump(m, open(sys.argv[2], "w"), indent=1)
PY
fi

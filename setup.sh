#!/bin/sh
# Offline setup: make sure hypothesis is importable by /venv/bin/python (it is pre-installed there;
# otherwise install it from the offline wheelhouse into /verif/.deps). Nothing is fetched.
HERE="$(cd "$(dirname "$0")" && pwd)"
cd "$HERE"
if ! /venv/bin/python -c "import hypothesis" 2>/dev/null; then
  /venv/bin/pip install --no-index --find-links /opt/veriftools/wheels --target "$HERE/.deps" hypothesis || exit 1
fi
PYTHONPATH="/repo:$HERE:$HERE/.deps" /venv/bin/python -c "import hypothesis, numpy, einx; print('setup ok: hypothesis', hypothesis.__version__, 'einx', einx.__file__)"

#!/bin/sh
# usage: tools_final.sh [tier]   -- run every registered check once in /verif against /repo (VERIF_SEED=${VERIF_SEED:-1}),
# so that /verif/evidence/*.json is what the committed machinery produces on the committed tree; prints one line per check.
HERE="$(cd "$(dirname "$0")" && pwd)"
tier="${1:-quick}"
cd "$HERE"
for p in C01 C02 C03 C04 C05 C06 C07 C08 C09 C10 C11 C12 C13 C14 C15 C16 C17; do
  out=$(VERIF_SEED=${VERIF_SEED:-1} ./check $p --tier $tier 2>&1); rc=$?
  echo "$p rc=$rc $(echo "$out" | grep -E "tier=" | cut -c1-200)"
  echo "$out" | grep -E "^VIOLATION|^HARNESS" | cut -c1-300
done

"""Worker entry point: python -m einxverif.worker <spec.json> <k> <out.json>"""

import importlib
import json
import sys
import traceback

from . import common


def main():
    spec_path, k, out = sys.argv[1], int(sys.argv[2]), sys.argv[3]
    with open(spec_path) as f:
        spec = json.load(f)
    try:
        common.import_einx()
        mod = importlib.import_module(f"einxverif.props.{spec['prop'].lower()}")
        frag = mod.worker(k, spec["n"], spec["tier"], spec["seed"], set(spec["known"]), spec.get("extra"))
    except BaseException:  # noqa: BLE001
        traceback.print_exc()
        sys.exit(3)
    with open(out, "w") as f:
        f.write(common.jdump(frag))


if __name__ == "__main__":
    main()

"""S9: coverage-guided fuzz target for the expression parser (C12 oracles inside the target).

Run as a subprocess:  python -m einxverif.fuzz_parser <fragment.json> <runs> <seed> <corpus-mode> [known buckets json]

libFuzzer (atheris) mutates bytes; the bytes are decoded token-wise (notation tokens, mutation tokens, arbitrary code
points) into a description string, and every string goes through `c12.check_string` (totality, error quoting, print/
re-parse round trip, redundant-space stability).  einx's parser modules are instrumented, so inputs reaching new parser
branches are kept and mutated further.  Violations do not stop the campaign: they are bucketed, the shortest string per
bucket is kept, and the campaign continues (a confirmed finding is excluded by construction).  libFuzzer terminates the
process itself, so the fragment file is rewritten every few thousand executions and when the run budget is reached.

corpus-mode: "empty" or "seeded" (a few valid descriptions from einxverif/seed_descriptions.txt as starting corpus).
"""

import json
import os
import sys


def ensure_atheris():
    try:
        import atheris  # noqa: F401

        return True
    except ImportError:
        pass
    import subprocess

    here = os.path.dirname(os.path.dirname(os.path.abspath(__file__)))
    deps = os.path.join(here, ".deps")
    r = subprocess.run(
        [sys.executable, "-m", "pip", "install", "--no-index", "--find-links", "/opt/veriftools/wheels", "--target", deps, "atheris"],
        capture_output=True,
        text=True,
    )
    if deps not in sys.path:
        sys.path.append(deps)
    try:
        import atheris  # noqa: F401

        return True
    except ImportError:
        sys.stderr.write("atheris unavailable: " + r.stderr[-300:] + "\n")
        return False


def main():
    frag_path, runs, seed, mode = sys.argv[1], int(sys.argv[2]), int(sys.argv[3]), sys.argv[4]
    known = set(json.loads(sys.argv[5])) if len(sys.argv) > 5 else set()
    if not ensure_atheris():
        json.dump({"unavailable": True}, open(frag_path, "w"))
        return 0
    import atheris

    with atheris.instrument_imports(include=["einx._src.namedtensor.stage1", "einx._src.namedtensor.stage1.parser", "einx._src.namedtensor.stage1.tree"]):
        import einx  # noqa: F401
        import einx._src.namedtensor.stage1  # noqa: F401

    from einxverif import common
    from einxverif.props import c12

    TOK = c12.MUT_TOKENS + ["c", "x1", "3", "10"]
    stats = common.Stats()
    best = {}
    state = {"n": 0, "maxlen": 0, "accepted": 0}

    def decode(data):
        fdp = atheris.FuzzedDataProvider(data)
        toks = []
        while fdp.remaining_bytes() and len(toks) < 48:
            b = fdp.ConsumeIntInRange(0, 255)
            if b < 224:
                toks.append(TOK[b % len(TOK)])
            else:
                toks.append(chr(fdp.ConsumeIntInRange(9, 0x2FF)))
        return "".join(toks)

    def flush():
        fr = stats.to_fragment()
        fr["violations"] = [{"bucket": b, "message": m, "case": {"string": s, "op_seed": 0}} for b, (s, m) in best.items() if b not in known]
        for b in best:
            if b in known:
                fr["excluded"][b] = fr["excluded"].get(b, 0) + 1
        fr["hist"]["fuzz_executions"] = state["n"]
        fr["hist"]["fuzz_max_string_len"] = state["maxlen"]
        fr["samples"] = fr.get("samples", [])[:4]
        fr["nontrivial"] = list(fr["nontrivial"])
        tmp = frag_path + ".tmp"
        with open(tmp, "w") as f:
            f.write(common.jdump(fr))
        os.replace(tmp, frag_path)

    def one(data):
        s = decode(data)
        state["n"] += 1
        state["maxlen"] = max(state["maxlen"], len(s))
        stats.evaluations += 1
        try:
            vs = c12.check_string(s, stats)
        except RecursionError:
            vs = []
        for v in vs:
            if v.bucket not in best or len(s) < len(best[v.bucket][0]):
                best[v.bucket] = (s, v.message)
        if state["n"] % 97 == 0:
            stats.sample({"kind": "fuzz", "string": s}, cap=6)
        if state["n"] % 4000 == 0 or state["n"] >= runs:
            flush()

    corpus = frag_path + ".corpus"  # inside the caller's scratch directory; the caller removes it
    os.makedirs(corpus, exist_ok=True)
    if mode == "seeded":
        # a few valid descriptions from the repository's tests, re-written over the token code (bytes index into TOK)
        all_seeds = c12.seed_descriptions()
        for i, d in enumerate(all_seeds[:: max(1, len(all_seeds) // 24)]):
            names = {}
            bs = bytearray()
            for t in c12.lex(d):
                if t not in TOK:
                    t = "3" if t.isdigit() else names.setdefault(t, ["a", "b", "c", "x1"][len(names) % 4])
                bs.append(TOK.index(t))
            if bs:
                with open(os.path.join(corpus, f"seed{i}"), "wb") as f:
                    f.write(bytes(bs))
    flush()
    atheris.Setup([sys.argv[0], f"-runs={runs}", f"-seed={seed if seed else 1}", "-max_len=96", "-print_final_stats=0", "-verbosity=0", corpus], one)
    atheris.Fuzz()
    return 0


if __name__ == "__main__":
    sys.exit(main())

"""Child interpreter for C17's cross-hash-seed pass: prints, for every case of a JSON file, a digest of the integer-masked AST of
the code einx generates (graph=True).  Run with a PYTHONHASHSEED chosen by the parent."""

import hashlib
import json
import sys
import warnings


def main():
    src, dst = sys.argv[1], sys.argv[2]
    warnings.simplefilter("ignore")
    import ast

    from einxverif.props import c17

    cases = json.load(open(src))
    out = []
    for base in cases:
        try:
            code = c17.get_code(base)
            out.append(["ok", hashlib.sha1(c17.masked_dump(ast.parse(code)).encode()).hexdigest()[:16], code])
        except Exception as e:  # noqa: BLE001
            out.append(["exc", type(e).__name__, str(e)[:200]])
    with open(dst, "w") as f:
        json.dump(out, f)


if __name__ == "__main__":
    main()

"""S4: run-time interposition on einx's optimizer / compiler and a reference graph interpreter.

No source hooks: `einx._src.tracer.optimize` and `einx._src.tracer.compiler.python.compile` are looked up by
attribute at call time by einx, so replacing the attributes on the imported modules records every
(traced graph, optimised graph, emitted text, compiled callable) of real calls.
"""

import builtins
import importlib
import operator

import numpy as np


class Recorder:
    """Context manager that records optimize() and compile() invocations."""

    def __init__(self, count_optimizer_passes=True):
        self.optimize_calls = []  # dicts: pre, post, optimizations, passes
        self.compile_calls = []  # dicts: graph, function, code
        self.invocations = {}  # id(function proxy) -> count

    def __enter__(self):
        import einx._src.tracer as tracer
        import einx._src.tracer.compiler.python as pycompiler
        import einx._src.tracer.optimizer.optimizer as optmod

        self._tracer = tracer
        self._pycompiler = pycompiler
        self._optmod = optmod
        self._orig_optimize = tracer.optimize
        self._orig_compile = pycompiler.compile
        self._orig_Optimizer = optmod.Optimizer
        rec = self

        class CountingOptimizer(optmod.Optimizer):
            passes = 0

            def __init__(self, optimizations):
                CountingOptimizer.passes += 1
                if CountingOptimizer.passes > CountingOptimizer.limit:
                    raise NoFixedPoint(f"optimizer did not reach a fixed point within {CountingOptimizer.limit} passes")
                super().__init__(optimizations)

        self._CountingOptimizer = CountingOptimizer

        def optimize(x, optimizations):
            CountingOptimizer.passes = 0
            CountingOptimizer.limit = count_nodes(x) + 3
            optmod.Optimizer = CountingOptimizer
            try:
                out = rec._orig_optimize(x, optimizations)
            finally:
                optmod.Optimizer = rec._orig_Optimizer
            rec.optimize_calls.append({"pre": x, "post": out, "optimizations": optimizations, "passes": CountingOptimizer.passes})
            return out

        def compile(obj, return_code=False):
            r = rec._orig_compile(obj, return_code=True)
            function, code = r
            proxy = CallProxy(function, rec)
            rec.compile_calls.append({"graph": obj, "function": function, "code": code, "proxy": proxy})
            if return_code:
                return proxy, code
            return proxy

        tracer.optimize = optimize
        pycompiler.compile = compile
        return self

    def __exit__(self, *a):
        self._tracer.optimize = self._orig_optimize
        self._pycompiler.compile = self._orig_compile
        self._optmod.Optimizer = self._orig_Optimizer
        return False


class NoFixedPoint(Exception):
    pass


class CallProxy:
    """Stands in for the compiled function so that the harness sees which callable the API invokes."""

    def __init__(self, function, rec):
        self.function = function
        self.rec = rec
        self.calls = 0

    def __call__(self, *args, **kwargs):
        self.calls += 1
        return self.function(*args, **kwargs)


def clear_op_cache(fn):
    """Clear the compile cache(s) inside an @api-decorated einx function; returns number of caches cleared."""
    cleared = 0
    for cell in fn.__closure__ or ():
        try:
            v = cell.cell_contents
        except ValueError:
            continue
        w = getattr(v, "__wrapped__", None)
        while w is not None:
            if hasattr(w, "cache_clear"):
                w.cache_clear()
                cleared += 1
                break
            w = getattr(w, "__wrapped__", None)
    return cleared


# ------------------------------------------------------------------ graph utilities


def _is_prim(x):
    return isinstance(x, (str, int, float, bool, np.integer, np.floating, np.bool_, np.ndarray)) or x is None


def iter_inputs(origin):
    for i in origin.inputs:
        yield i


def walk(x, seen=None):
    """Yield every tracer / graph reachable from x (each once)."""
    import einx._src.tracer as tracer

    if seen is None:
        seen = set()
    stack = [x]
    while stack:
        v = stack.pop()
        if isinstance(v, (list, tuple)):
            stack.extend(v)
        elif isinstance(v, dict):
            stack.extend(v.keys())
            stack.extend(v.values())
        elif isinstance(v, slice):
            stack.extend([v.start, v.stop, v.step])
        elif isinstance(v, tracer.Graph):
            if id(v) in seen:
                continue
            seen.add(id(v))
            yield v
            stack.extend(v.inputs)
            stack.append(v.output)
        elif isinstance(v, tracer.Tracer):
            if id(v) in seen:
                continue
            seen.add(id(v))
            yield v
            if v.origin is not None:
                stack.extend(v.origin.inputs)
                if isinstance(v.origin, tracer.Cast):
                    stack.append(v.origin.input)


def count_nodes(x):
    return sum(1 for _ in walk(x))


def applications(x):
    """Distinct Application objects reachable from x."""
    out = {}
    for v in walk(x):
        if hasattr(v, "origin") and v.origin is not None:
            out[id(v.origin)] = v.origin
    return list(out.values())


def structure_signature(x):
    """A structural hash of a graph (node kinds and wiring), independent of object identity.

    Every node is reduced to a digest of (kind, attributes, digests of its inputs): shared sub-graphs are hashed once,
    so the cost is linear in the DAG (nested tuples would be compared / printed as trees: exponential)."""
    import hashlib

    import einx._src.tracer as tracer

    memo = {}

    def h(*parts):
        return hashlib.sha1(repr(parts).encode()).hexdigest()[:20]

    def rec(v):
        if _is_prim(v):
            if isinstance(v, np.ndarray):
                return h("nd", v.shape)
            return h("p", repr(v))
        if isinstance(v, (list, tuple)):
            return h(type(v).__name__, tuple(rec(i) for i in v))
        if isinstance(v, dict):
            return h("dict", tuple((rec(k), rec(val)) for k, val in v.items()))
        if isinstance(v, slice):
            return h("slice", rec(v.start), rec(v.stop), rec(v.step))
        if id(v) in memo:
            return memo[id(v)]
        memo[id(v)] = h("cycle")
        if isinstance(v, tracer.Graph):
            r = h("graph", len(v.inputs), rec(v.output))
        elif isinstance(v, tracer.Tracer):
            if v.origin is None:
                r = h("input", type(v).__name__, getattr(v, "shape", None))
            else:
                o = v.origin
                extra = ()
                for attr in ("key", "op", "import_", "from_", "as_", "operator", "name", "message"):
                    if hasattr(o, attr) and isinstance(getattr(o, attr), (str, type(None))):
                        extra += (getattr(o, attr),)
                r = h(type(o).__name__, extra, tuple(rec(i) for i in o.inputs))
        else:
            r = h("obj", type(v).__name__)
        memo[id(v)] = r
        return r

    return rec(x)


# ------------------------------------------------------------------ reference interpreter

_OPS2 = {
    "+": operator.add, "-": operator.sub, "*": operator.mul, "/": operator.truediv, "//": operator.floordiv, "%": operator.mod, "**": operator.pow,
    "==": operator.eq, "!=": operator.ne, "<": operator.lt, "<=": operator.le, ">": operator.gt, ">=": operator.ge,
    "and": lambda a, b: a and b, "or": lambda a, b: a or b, "is": operator.is_, "in": lambda a, b: a in b,
}  # fmt: skip
_OPS1 = {"-": operator.neg, "+": operator.pos, "not": operator.not_, "~": operator.invert}


class Frame:
    def __init__(self, graph, parent):
        self.graph = graph
        self.parent = parent
        self.memo = {}


class Interpreter:
    """Evaluates a tracer.Graph node by node.  Every application is evaluated at most once per activation of
    the scope it belongs to (the innermost graph whose inputs it depends on)."""

    def __init__(self):
        import einx._src.tracer as tracer

        self.tracer = tracer
        self.log = []  # (function object, args, kwargs) for every call
        self.evaluated = 0
        self._deps = {}

    # --- which graph inputs does a value depend on?
    def deps(self, v):
        tracer = self.tracer
        if _is_prim(v):
            return frozenset()
        if isinstance(v, (list, tuple)):
            return frozenset().union(*[self.deps(i) for i in v]) if v else frozenset()
        if isinstance(v, dict):
            return frozenset().union(*[self.deps(i) for i in list(v.keys()) + list(v.values())]) if v else frozenset()
        if isinstance(v, slice):
            return self.deps([v.start, v.stop, v.step])
        key = id(v)
        if key in self._deps:
            return self._deps[key]
        self._deps[key] = frozenset()
        if isinstance(v, tracer.Graph):
            inner = self.deps(v.output)
            r = frozenset(d for d in inner if d not in {id(i) for i in self._flat_inputs(v)})
        elif isinstance(v, tracer.Tracer):
            if v.origin is None:
                r = frozenset([id(v)])
            else:
                r = self.deps(list(v.origin.inputs))
        else:
            r = frozenset()
        self._deps[key] = r
        return r

    def _flat_inputs(self, graph):
        out = []

        def rec(x):
            if isinstance(x, (list, tuple)):
                for i in x:
                    rec(i)
            elif isinstance(x, dict):
                for i in x.values():
                    rec(i)
            else:
                out.append(x)

        rec(graph.inputs)
        return out

    def run(self, graph, args):
        frame = Frame(graph, None)
        self._bind(frame, graph, args)
        return self.eval(graph.output, frame)

    def _bind(self, frame, graph, args):
        if len(args) != len(graph.inputs):
            raise TypeError(f"graph takes {len(graph.inputs)} arguments, {len(args)} given")
        for i, a in zip(graph.inputs, args):
            frame.memo[id(i)] = a

    def _home(self, v, frame):
        """Frame in which the value of v lives: the innermost frame whose graph inputs v depends on."""
        d = self.deps(v)
        f = frame
        while f.parent is not None and f.graph is not None:
            ins = {id(i) for i in self._flat_inputs(f.graph)}
            if d & ins:
                return f
            f = f.parent
        return f

    def _lookup(self, v, frame):
        f = frame
        while f is not None:
            if id(v) in f.memo:
                return True, f.memo[id(v)]
            f = f.parent
        return False, None

    def eval(self, v, frame):
        tracer = self.tracer
        py = tracer.signature.python
        if _is_prim(v):
            return v
        if isinstance(v, list):
            return [self.eval(i, frame) for i in v]
        if isinstance(v, tuple):
            return tuple(self.eval(i, frame) for i in v)
        if isinstance(v, dict):
            return {self.eval(k, frame): self.eval(val, frame) for k, val in v.items()}
        if isinstance(v, slice):
            return slice(self.eval(v.start, frame), self.eval(v.stop, frame), self.eval(v.step, frame))
        if isinstance(v, tracer.Graph):
            found, val = self._lookup(v, frame)
            if found:
                return val
            home = self._home(v, frame)
            graph = v
            # node-by-node evaluation is eager: values inside the function body that do not depend on its
            # parameters belong to the enclosing scope and are computed there, once, when the function is defined
            self._hoist(graph, frame)

            def closure(*args, _graph=graph, _home=home):
                fr = Frame(_graph, _home)
                self._bind(fr, _graph, args)
                return self.eval(_graph.output, fr)

            closure.__name__ = graph.name or "graph"
            home.memo[id(v)] = closure
            return closure
        if not isinstance(v, tracer.Tracer):
            return v  # arbitrary constant object
        found, val = self._lookup(v, frame)
        if found:
            return val
        if v.origin is None:
            raise KeyError(f"unbound graph input {v}")
        o = v.origin
        home = self._home(v, frame)
        self.evaluated += 1
        if isinstance(o, tracer.Cast):
            concrete = self.eval(o.input, frame)
            self._assign(o.output, concrete, home)
            return self._lookup(v, frame)[1]
        if isinstance(o, py.Call):
            fn = self.eval(o.function, frame)
            args = [self.eval(a, frame) for a in o.args]
            kwargs = {k: self.eval(a, frame) for k, a in o.kwargs.items()}
            self.log.append((fn, args, kwargs))
            res = fn(*args, **kwargs)
        elif isinstance(o, py.CallInplace):
            xs = self.eval(o.xs, frame)
            fn = self.eval(o.function, frame)
            args = [self.eval(a, frame) for a in o.args]
            kwargs = {k: self.eval(a, frame) for k, a in o.kwargs.items()}
            self.log.append((fn, args, kwargs))
            fn(*args, **kwargs)
            res = xs
        elif isinstance(o, py.GetAttr):
            res = getattr(self.eval(o.obj, frame), o.key if isinstance(o.key, str) else self.eval(o.key, frame))
        elif isinstance(o, py.GetItem):
            res = self.eval(o.obj, frame)[self.eval(o.key, frame)]
        elif isinstance(o, py.UpdateItem):
            obj = self.eval(o.obj, frame)
            key = self.eval(o.key, frame)
            val = self.eval(o.value, frame)
            if o.op == "=":
                obj[key] = val
            elif o.op == "+=":
                obj[key] += val
            elif o.op == "-=":
                obj[key] -= val
            else:
                raise NotImplementedError(o.op)
            res = obj
        elif isinstance(o, py.Import):
            if o.from_ is None:
                res = importlib.import_module(o.import_)
            else:
                res = getattr(importlib.import_module(o.from_), o.import_)
        elif isinstance(o, py.OperatorApplication):
            ops = [self.eval(a, frame) for a in o.operands]
            if len(ops) == 1:
                res = _OPS1[o.operator](ops[0])
            else:
                res = _OPS2[o.operator](*ops)
        elif isinstance(o, py.Builtin):
            res = getattr(builtins, o.name)
        elif isinstance(o, py.Assert):
            xs = self.eval(o.xs, frame)
            cond = self.eval(o.condition, frame)
            if not cond:
                raise AssertionError(o.message)
            self._assign(o.output, xs, home)
            return self._lookup(v, frame)[1]
        elif isinstance(o, py.Constant):
            res = o.value
        else:
            raise NotImplementedError(type(o).__name__)
        self._assign(o.output, res, home)
        return self._lookup(v, frame)[1]

    def _hoist(self, graph, frame):
        tracer = self.tracer
        inner = {id(i) for i in self._flat_inputs(graph)}
        seen = set()

        def rec(x):
            if _is_prim(x):
                return
            if isinstance(x, (list, tuple)):
                for i in x:
                    rec(i)
                return
            if isinstance(x, dict):
                for i in list(x.keys()) + list(x.values()):
                    rec(i)
                return
            if isinstance(x, slice):
                rec([x.start, x.stop, x.step])
                return
            if id(x) in seen:
                return
            seen.add(id(x))
            if isinstance(x, tracer.Graph):
                if not (self.deps(x) & inner):
                    self.eval(x, frame)
                else:
                    rec(x.output)
                return
            if isinstance(x, tracer.Tracer):
                if x.origin is None:
                    return
                if not (self.deps(x) & inner):
                    self.eval(x, frame)
                else:
                    rec(list(x.origin.inputs))
                    if isinstance(x.origin, tracer.Cast):
                        rec(x.origin.input)

        rec(graph.output)

    def _assign(self, out_tree, concrete, frame):
        tracer = self.tracer
        if isinstance(out_tree, tracer.Tracer):
            frame.memo[id(out_tree)] = concrete
        elif isinstance(out_tree, (list, tuple)):
            concrete = list(concrete)
            if len(concrete) != len(out_tree):
                raise ValueError("structure mismatch in cast")
            for t, c in zip(out_tree, concrete):
                self._assign(t, c, frame)
        elif isinstance(out_tree, dict):
            for k, t in out_tree.items():
                self._assign(t, concrete[k], frame)
        else:
            raise NotImplementedError(type(out_tree).__name__)

"""S3: reference shape solver, independent of sympy and einx.

Input: a *template* expression list (items as in expr.py, but ellipsis nodes carry only their template and
base names; repetition counts are unknowns), tensor shapes (tuple or None) and keyword sizes.
Output: the exact solution set over (repetition counts, axis lengths) restricted to the variables that are
bounded by a known dimension or fixed by a keyword, plus the set of *free* variables (unbounded).
"""

import itertools

from . import expr as X


class Tpl:
    """Template expression: items where ["ell", [tpl_item], basenames] has unknown repetition count."""


def fam_names(tpl_items):
    return [l[1] for l, _ in X.walk_leaves(tpl_items) if l[0] == "ax"]


def template_of(items):
    """Convert a resolved expression (expr.py, with expanded ellipses) into a template (drop expansions)."""
    out = []
    for it in items:
        t = it[0]
        if t == "ell":
            out.append(["ell", template_of(it[1])])
        elif t in ("flat", "cat", "br"):
            out.append([t, template_of(it[1])])
        else:
            out.append(list(it))
    return out


def families(tpls):
    """Ellipsis groups: list of frozensets of base names that are repeated together."""
    fams = []

    def rec(items, depth):
        for it in items:
            if it[0] == "ell":
                if depth > 0:
                    raise NotImplementedError("nested ellipsis")
                names = frozenset(l[1] for l, _ in X.walk_leaves(_strip_ell(it[1])) if l[0] == "ax")
                fams.append(names)
                rec(it[1], depth + 1)
            elif it[0] in ("flat", "cat", "br"):
                rec(it[1], depth)

    for t in tpls:
        rec(t, 0)
    # names sharing an ellipsis anywhere must have the same count: union-find over names
    parent = {}

    def find(x):
        parent.setdefault(x, x)
        while parent[x] != x:
            parent[x] = parent[parent[x]]
            x = parent[x]
        return x

    for f in fams:
        f = list(f)
        for n in f:
            find(n)
        for n in f[1:]:
            parent[find(n)] = find(f[0])
    groups = {}
    for n in parent:
        groups.setdefault(find(n), set()).add(n)
    # anonymous / nameless ellipsis templates (e.g. "(1)...") are given a private group
    return list(groups.values())


def _strip_ell(items):
    return items


def instantiate(items, counts, group_of):
    """Expand a template with the given repetition count per group -> resolved items (names base.i)."""
    out = []
    for it in items:
        t = it[0]
        if t == "ell":
            names = [l[1] for l, _ in X.walk_leaves(it[1]) if l[0] == "ax"]
            if names:
                k = counts[group_of[names[0]]]
            else:
                k = counts[("anon", id(it))]
            for i in range(k):
                out.extend(_rename(it[1], lambda n, i=i: f"{n}.{i}"))
        elif t in ("flat", "cat", "br"):
            out.append([t, instantiate(it[1], counts, group_of)])
        else:
            out.append(it)
    return out


def _rename(items, f):
    out = []
    for it in items:
        t = it[0]
        if t == "ax":
            out.append(["ax", f(it[1])])
        elif t in ("flat", "cat", "br"):
            out.append([t, _rename(it[1], f)])
        else:
            out.append(it)
    return out


def rank_of(items):
    n = 0
    for it in items:
        if it[0] == "br":
            n += rank_of(it[1])
        else:
            n += 1
    return n


def solve(tpls, shapes, sizes, max_solutions=2000):
    """Returns dict:
    rank_solutions: list of counts dicts (group index -> k)
    solutions: list of (counts, env) with env over bounded variables
    free: set of variable names (expanded) that are unbounded in some rank solution
    """
    groups = families(tpls)
    group_of = {}
    for gi, g in enumerate(groups):
        for n in g:
            group_of[n] = gi
    # anonymous (nameless) ellipses
    anon = []

    def find_anon(items):
        for it in items:
            if it[0] == "ell":
                if not [l for l, _ in X.walk_leaves(it[1]) if l[0] == "ax"]:
                    anon.append(("anon", id(it)))
                find_anon(it[1])
            elif it[0] in ("flat", "cat", "br"):
                find_anon(it[1])

    for t in tpls:
        find_anon(t)
    keys = list(range(len(groups))) + anon
    known_ranks = [len(s) for s in shapes if s is not None]
    R = max(known_ranks + [0]) + 1
    # keyword tuples fix counts
    fixed = {}
    for k, v in sizes.items():
        if isinstance(v, (list, tuple)) and k in group_of:
            fixed[group_of[k]] = len(v)
    rank_solutions = []
    ranges = [([fixed[k]] if k in fixed else range(0, R + 1)) for k in keys]
    for combo in itertools.product(*ranges):
        counts = dict(zip(keys, combo))
        ok = True
        for t, s in zip(tpls, shapes):
            if s is None:
                continue
            if rank_of(instantiate(t, counts, group_of)) != len(s):
                ok = False
                break
        if ok:
            rank_solutions.append(counts)
    result = {"rank_solutions": rank_solutions, "solutions": [], "free": set(), "groups": groups, "group_of": group_of, "truncated": False}
    # a group occurring only inside flattened axes of known tensors / only in unknown tensors is unbounded in count:
    # handled by the range cap R+1: if count R+1 is feasible the set is infinite
    result["rank_unbounded"] = any(any(c[k] == R + 1 for k in keys if k not in fixed) for c in rank_solutions)
    for counts in rank_solutions:
        insts = [instantiate(t, counts, group_of) for t in tpls]
        eqs = []
        for e, s in zip(insts, shapes):
            if s is None:
                continue
            tops = list(X._flat_children(e))
            eqs.extend(zip(tops, [int(d) for d in s]))
        known = {}
        bad = False
        for k, v in sizes.items():
            if k in group_of:
                n = counts[group_of[k]]
                vals = list(v) if isinstance(v, (list, tuple)) else [v] * n
                if len(vals) != n:
                    bad = True
                    break
                for i, x in enumerate(vals):
                    known[f"{k}.{i}"] = int(x)
            else:
                if isinstance(v, (list, tuple)):
                    bad = True  # tuple constraint for an axis without ellipsis
                    break
                known[k] = int(v)
        if bad or any(x < 1 for x in known.values()):
            continue
        allvars = []
        for e in insts:
            for l, _ in X.walk_leaves(e):
                if l[0] == "ax" and l[1] not in allvars:
                    allvars.append(l[1])
        bounded = {}
        for it, d in eqs:
            for l, _ in X.walk_leaves([it]):
                if l[0] == "ax":
                    bounded[l[1]] = min(bounded.get(l[1], d), d)
        free = [v for v in allvars if v not in bounded and v not in known]
        # enumerate bounded variables
        try:
            solved, pending = X.propagate(eqs, known)
        except X.Inconsistent:
            continue
        unk = [v for v in allvars if v in bounded and v not in solved]
        envs = []
        if not unk:
            if not pending:
                envs = [dict(solved)]
            else:
                envs = []
        else:
            doms = []
            for v in unk:
                doms.append(range(1, bounded[v] + 1))
            total = 1
            for d in doms:
                total *= len(d)
            if total > 200000:
                result["truncated"] = True
                continue

            def ok_env(env):
                for it, d in eqs:
                    if X.item_len(it, env) != d:
                        return False
                return True

            for combo in itertools.product(*doms):
                env = dict(solved)
                env.update(zip(unk, combo))
                for f in free:
                    env.setdefault(f, 1)
                if ok_env(env):
                    for f in free:
                        env.pop(f, None)
                    envs.append(env)
                    if len(envs) > max_solutions:
                        result["truncated"] = True
                        break
        if not unk and not pending:
            pass
        elif not unk and pending:
            # pending equations involve only solved/known vars? then check them
            env = dict(solved)
            for f in free:
                env[f] = 1
            try:
                if all(X.item_len(it, env) == d for it, d in pending):
                    envs = [dict(solved)]
            except KeyError:
                envs = []
        for env in envs:
            result["solutions"].append((counts, env, tuple(free), insts))
    return result


def unit_propagation_complete(tpls, shapes, sizes):
    """Completeness clause: ranks determined by single-unknown substitution and all lengths by unit propagation."""
    r = solve(tpls, shapes, sizes)
    if len(r["rank_solutions"]) != 1 or r["rank_unbounded"]:
        return False, None
    counts = r["rank_solutions"][0]
    group_of = r["group_of"]
    insts = [instantiate(t, counts, group_of) for t in tpls]
    known = {}
    for k, v in sizes.items():
        if k in group_of:
            n = counts[group_of[k]]
            vals = list(v) if isinstance(v, (list, tuple)) else [v] * n
            if len(vals) != n:
                return False, None
            for i, x in enumerate(vals):
                known[f"{k}.{i}"] = int(x)
        else:
            if isinstance(v, (list, tuple)):
                return False, None
            known[k] = int(v)
    eqs = []
    for e, s in zip(insts, shapes):
        if s is None:
            continue
        tops = list(X._flat_children(e))
        eqs.extend(zip(tops, [int(d) for d in s]))
    try:
        solved, pending = X.propagate(eqs, known)
    except X.Inconsistent:
        return False, None
    allvars = []
    for e in insts:
        for l, _ in X.walk_leaves(e):
            if l[0] == "ax" and l[1] not in allvars:
                allvars.append(l[1])
    if pending or any(v not in solved for v in allvars):
        return False, None
    return True, (counts, solved, insts)

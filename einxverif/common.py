"""Shared runner machinery (S7): seeds, workers, buckets, known findings, replays, evidence."""

import hashlib
import json
import multiprocessing
import os
import sys
import time
import traceback

VERIF = os.path.dirname(os.path.dirname(os.path.abspath(__file__)))
REPO = os.environ.get("EINX_REPO", "/repo")
NWORKERS = int(os.environ.get("VERIF_WORKERS", "16"))
# multiplier on the generated-case budgets of both tiers (e.g. VERIF_SCALE=0.05 for a smoke run of the thorough tier)
SCALE = float(os.environ.get("VERIF_SCALE", "1"))


class HarnessError(Exception):
    """Raised when the harness itself cannot do its job (exit code 2, never a VIOLATION)."""


def seed_value():
    try:
        return int(os.environ.get("VERIF_SEED", "1"))
    except ValueError:
        return 1


def import_einx():
    import einx

    path = os.path.realpath(einx.__file__)
    if not path.startswith(os.path.realpath(REPO) + os.sep):
        raise HarnessError(f"einx imported from {path}, expected under {REPO}")
    return einx


def jdump(obj):
    return json.dumps(obj, sort_keys=True, default=_json_default)


def _json_default(o):
    import numpy as np

    if isinstance(o, np.integer):
        return int(o)
    if isinstance(o, np.floating):
        return float(o)
    if isinstance(o, np.bool_):
        return bool(o)
    if isinstance(o, np.ndarray):
        return o.tolist()
    if isinstance(o, (set, frozenset)):
        return sorted(o, key=repr)
    if isinstance(o, tuple):
        return list(o)
    return repr(o)


def h64(obj):
    s = obj if isinstance(obj, str) else jdump(obj)
    return int.from_bytes(hashlib.sha1(s.encode()).digest()[:8], "big")


def sha12(obj):
    s = obj if isinstance(obj, str) else jdump(obj)
    return hashlib.sha1(s.encode()).hexdigest()[:12]


class Violation:
    def __init__(self, bucket, message, detail=None):
        self.bucket = bucket
        self.message = message
        self.detail = detail or {}

    def __repr__(self):
        return f"Violation({self.bucket!r}, {self.message!r})"


def exc_bucket(prop, e, extra=""):
    """Bucket key for an exception: (property, class, innermost einx frame module:function)."""
    tb = e.__traceback__
    frame = None
    while tb is not None:
        fn = tb.tb_frame.f_code.co_filename
        if os.sep + "einx" + os.sep in fn and "einxverif" not in fn:
            mod = fn.split(os.sep + "einx" + os.sep, 1)[1].replace(os.sep, ".")
            if mod.endswith(".py"):
                mod = mod[:-3]
            frame = f"{mod}:{tb.tb_frame.f_code.co_name}"
        tb = tb.tb_next
    return f"{prop}|exc|{type(e).__name__}|{frame}{('|' + extra) if extra else ''}"


# --------------------------------------------------------------------------------------
# Known findings


def load_known(prop):
    path = os.path.join(VERIF, "known_findings.json")
    if not os.path.exists(path):
        return []
    with open(path) as f:
        entries = json.load(f)
    return [e for e in entries if e.get("property") == prop]


# --------------------------------------------------------------------------------------
# Stats collected inside workers


class Stats:
    def __init__(self):
        self.evaluations = 0
        self.nontrivial = set()  # 64-bit hashes of canonical keys
        self.hist = {}
        self.samples = []
        self.excluded = {}
        self.extra = {}

    def count(self, key, n=1):
        self.hist[key] = self.hist.get(key, 0) + n

    def nt(self, key):
        self.nontrivial.add(h64(key))

    def sample(self, s, cap=6):
        if len(self.samples) < cap:
            self.samples.append(s)

    def to_fragment(self):
        return {
            "evaluations": self.evaluations,
            "nontrivial": list(self.nontrivial),
            "hist": self.hist,
            "samples": self.samples,
            "excluded": self.excluded,
            "extra": self.extra,
        }


def merge_fragments(frags):
    out = {"evaluations": 0, "nontrivial": set(), "hist": {}, "samples": [], "excluded": {}, "extra": {}, "violations": [], "notes": []}
    for fr in frags:
        out["evaluations"] += fr.get("evaluations", 0)
        out["nontrivial"].update(fr.get("nontrivial", []))
        for k, v in fr.get("hist", {}).items():
            out["hist"][k] = out["hist"].get(k, 0) + v
        for k, v in fr.get("excluded", {}).items():
            out["excluded"][k] = out["excluded"].get(k, 0) + v
        for k, v in fr.get("extra", {}).items():
            if isinstance(v, (int, float)):
                out["extra"][k] = out["extra"].get(k, 0) + v
            elif isinstance(v, list):
                out["extra"].setdefault(k, []).extend(v)
            else:
                out["extra"][k] = v
        out["samples"].extend(fr.get("samples", []))
        out["violations"].extend(fr.get("violations", []))
        out["notes"].extend(fr.get("notes", []))
    return out


# --------------------------------------------------------------------------------------
# Hypothesis driver with bucketing (G5) and shrink guard (G4)


class _Found(Exception):
    pass


def hyp_search(prop, strategy, evaluate, *, seed, max_examples, known_buckets=(), shrink_budget_s=45.0, stats=None, key_of=None):
    """Run `evaluate(case, stats) -> list[Violation]` over cases drawn from `strategy`.

    Returns (stats, violations) where violations is a list of dicts {bucket, message, case, detail}
    holding, per bucket, the smallest failing case seen (by serialised length).
    """
    import hypothesis
    from hypothesis import HealthCheck, Phase, given, settings

    stats = stats or Stats()
    known_buckets = set(known_buckets)
    found = {}  # bucket -> dict
    state = {"target": None, "t_first": None, "search_done": False}

    def body(case):
        if state["t_first"] is not None and time.time() - state["t_first"] > shrink_budget_s:
            return  # shrink budget exhausted: let Hypothesis finish
        searching = state["target"] is None
        if searching:
            stats.evaluations += 1
        viols = evaluate(case, stats if searching else Stats())
        raise_it = False
        for v in viols:
            if v.bucket in known_buckets:
                if searching:
                    stats.excluded[v.bucket] = stats.excluded.get(v.bucket, 0) + 1
                continue
            size = len(jdump(case))
            cur = found.get(v.bucket)
            if cur is None or size < cur["size"]:
                found[v.bucket] = {"bucket": v.bucket, "message": v.message, "case": case, "detail": v.detail, "size": size}
            if state["target"] is None:
                state["target"] = v.bucket
                state["t_first"] = time.time()
            if v.bucket == state["target"]:
                raise_it = True
        if raise_it:
            raise _Found()

    test = given(strategy)(body)
    test = settings(
        max_examples=max_examples,
        database=None,
        deadline=None,
        report_multiple_bugs=False,
        derandomize=False,
        suppress_health_check=list(HealthCheck),
        phases=[Phase.generate, Phase.shrink],
        print_blob=False,
    )(test)
    test = hypothesis.seed(seed)(test)
    try:
        test()
    except _Found:
        pass
    except HarnessError:
        raise
    except BaseException as e:  # noqa: BLE001
        name = type(e).__name__
        if found and name in ("Flaky", "FlakyFailure", "FlakyReplay", "Unsatisfiable", "FailedHealthCheck", "ExceptionGroup", "BaseExceptionGroup"):
            pass
        elif isinstance(e, (KeyboardInterrupt, SystemExit)):
            raise
        else:
            raise HarnessError(f"harness failure in {prop}: {name}: {e}\n{traceback.format_exc()}") from e
    viols = []
    for b, d in found.items():
        d = dict(d)
        d.pop("size", None)
        viols.append(d)
    return stats, viols


# --------------------------------------------------------------------------------------
# Replay files


def write_replay(prop, violation):
    d = os.path.join(VERIF, "replays", prop)
    os.makedirs(d, exist_ok=True)
    body = {
        "property": prop,
        "bucket": violation["bucket"],
        "message": violation["message"],
        "case": violation["case"],
        "detail": violation.get("detail", {}),
    }
    name = sha12({"b": violation["bucket"], "c": violation["case"]}) + ".json"
    path = os.path.join(d, name)
    with open(path, "w") as f:
        f.write(json.dumps(body, indent=1, sort_keys=True, default=_json_default))
    return path


# --------------------------------------------------------------------------------------
# Workers: fresh interpreter per worker (a forked pool suffers copy-on-write page-fault storms in
# this VM: 16 forked workers were 4x slower than 16 independent processes)


def run_workers(prop, n, tier, seed, known_buckets, extra=None):
    """Start n fresh worker processes `python -m einxverif.worker`; each calls
    props.<prop>.worker(k, n, tier, seed, known_buckets, extra) and writes a JSON fragment."""
    import subprocess
    import tempfile

    n = max(1, n)
    workdir = tempfile.mkdtemp(prefix=f"einxverif_{prop}_", dir=os.environ.get("VERIF_SCRATCH", "/tmp"))
    spec = {"prop": prop, "n": n, "tier": tier, "seed": seed, "known": sorted(known_buckets), "extra": extra}
    spec_path = os.path.join(workdir, "spec.json")
    with open(spec_path, "w") as f:
        json.dump(spec, f)
    procs = []
    try:
        for k in range(n):
            out = os.path.join(workdir, f"frag_{k}.json")
            err = open(os.path.join(workdir, f"err_{k}.txt"), "w")
            p = subprocess.Popen([sys.executable, "-m", "einxverif.worker", spec_path, str(k), out], stdout=err, stderr=err, cwd=VERIF)
            procs.append((k, p, out, err))
        frags = []
        for k, p, out, err in procs:
            rc = p.wait()
            err.close()
            if rc != 0 or not os.path.exists(out):
                with open(err.name) as f:
                    msg = f.read()[-3000:]
                raise HarnessError(f"worker {k} of {prop} failed (rc={rc}):\n{msg}")
            with open(out) as f:
                frags.append(json.load(f))
        return frags
    finally:
        for k, p, out, err in procs:
            if p.poll() is None:
                p.kill()
        import shutil

        shutil.rmtree(workdir, ignore_errors=True)


# --------------------------------------------------------------------------------------
# Evidence


def write_evidence(prop, tier, seed, merged, *, rule, wall_s, assumptions, level="exploration", extra_cov=None, nviol=0):
    cov = {
        "evaluations": int(merged["evaluations"]),
        "distinct_nontrivial": int(len(merged["nontrivial"]) + merged.get("nt_extra", 0)),
        "rule": rule,
        "samples": merged["samples"][:12] if merged["samples"] else ["<none>"],
        "class_histogram": dict(sorted(merged["hist"].items())),
        "excluded_known": merged["excluded"],
        "workers": NWORKERS,
    }
    low = []
    ev = max(1, merged["evaluations"])
    for k, v in merged["hist"].items():
        if k.startswith("feat:") and v / ev < 0.02:
            low.append(k)
    if low:
        cov["classes_under_2_percent"] = sorted(low)
    for k, v in merged.get("extra", {}).items():
        cov.setdefault(k, v)
    if extra_cov:
        cov.update(extra_cov)
    ev = {
        "property_id": prop,
        "tier": tier,
        "seed": int(seed),
        "level": level,
        "coverage": cov,
        "assumptions": assumptions,
        "wall_s": round(float(wall_s), 2),
        "violations": int(nviol),
    }
    # a run against another tree (EINX_REPO=<scratch worktree>, used for seeded changes) must not replace the evidence of /repo
    other = os.environ.get("EINX_REPO") not in (None, "", "/repo")
    edir = os.path.join(VERIF, "replays", "_evidence_other_tree") if other else os.path.join(VERIF, "evidence")
    os.makedirs(edir, exist_ok=True)
    path = os.path.join(edir, f"{prop}.json")
    tmp = path + ".tmp"
    with open(tmp, "w") as f:
        f.write(json.dumps(ev, indent=1, sort_keys=True, default=_json_default))
    os.replace(tmp, path)
    return path

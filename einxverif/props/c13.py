"""C13 -- tensor factories run once per call, with the resolved shape, only at run time."""

import functools
import warnings

import numpy as np
from hypothesis import strategies as st

from .. import common, gen as G, loopsem as L, expr as X, loopvmap as LV
from ..common import Violation
from . import c01
from ._base import standard_run, standard_worker

PROP = "C13"
RULE = (
    "Generated calls of every operation family in which a non-empty subset of argument positions is replaced by an "
    "instrumented tensor factory of a drawn signature kind (shape only; shape,name; keyword-only arg_index; all optional "
    "keywords; **kwargs; callable object; functools.partial; a signature-less builtin). Keyword sizes are the minimal set "
    "computed with factories treated as unknown shapes. Each case runs a history: first call, cached repeat, graph=True, "
    "solve_shapes/matches, a call with a needed keyword removed, and a call with a misbehaving factory (wrong shape, wrong "
    "rank, list, None, scalar). Oracle: invocation log (exactly one call per factory position and execution, argument = tuple "
    "of Python ints equal to the reference shape, keywords within the declared ones with name/arg_index correct, zero calls "
    "for graph/solve/rejected calls), result equal to the call with the produced arrays, rejected/misbehaving calls raise. "
    "Non-trivial: a factory whose shape is not inferable from that argument alone (always) in a call with >=1 keyword size or "
    ">=2 inputs; distinct by (canonical call, factory positions, signature kinds)."
)
ASSUMPTIONS = c01.ASSUMPTIONS + [
    "the 'no constraint' clause is asserted only for keywords of axes that occur in no tensor of known shape and in no structural equation (definitely undetermined)",
    "factories return numpy arrays produced by the generator (or np.ones for the signature-less builtin)",
]

KINDS = ["shape", "shape_name", "kwonly_argindex", "all_optional", "var_kwargs", "object", "partial", "builtin"]
BAD = ["wrong_shape", "wrong_rank", "list", "none", "pyscalar", "arraylike", "arraylike", "memoryview", "npscalar"]


@st.composite
def c13_case(draw, tier="quick", k=0):
    base = draw(G.stratified_case(k, quick=(tier == "quick"), factories=True, backends=[None, "numpy", "numpy.numpylike", "numpy.einsum", LV.NAME]))
    kinds = [draw(st.sampled_from(KINDS)) for _ in base["ins"]]
    bad = draw(st.sampled_from(BAD))
    bad_pos = draw(st.integers(0, len(base["ins"]) - 1))
    return {"base": base, "kinds": kinds, "bad": bad, "bad_pos": bad_pos, "drop": draw(st.integers(0, 7))}


class ArrayLike:
    """Not an ndarray, but exposes the right .shape and converts through __array__."""

    def __init__(self, a):
        self._a = a
        self.shape = a.shape
        self.ndim = a.ndim
        self.dtype = a.dtype

    def __array__(self, dtype=None, copy=None):
        return self._a if dtype is None else self._a.astype(dtype)

    def __len__(self):
        return len(self._a)

    def __getitem__(self, i):
        return self._a[i]


class Log:
    def __init__(self):
        self.calls = []  # (position, args, kwargs)


def make_factory(kind, pos, value, log, bad=None):
    def produce(shape):
        if bad is None:
            return value
        if bad == "wrong_shape":
            return np.zeros(tuple(shape) + (2,)) if len(tuple(shape)) == 0 else np.zeros(tuple(int(s) + 1 for s in shape))
        if bad == "wrong_rank":
            return np.zeros(tuple(shape) + (1,))
        if bad == "list":
            return np.asarray(value).tolist() if np.asarray(value).ndim > 0 else [np.asarray(value).item()]
        if bad == "none":
            return None
        if bad == "pyscalar":
            return 1.5
        if bad == "arraylike":  # right .shape, wrong type
            return ArrayLike(np.asarray(value))
        if bad == "memoryview":
            a = np.ascontiguousarray(np.asarray(value))
            return memoryview(a) if a.ndim > 0 else ArrayLike(a)
        if bad == "npscalar":
            a = np.asarray(value)
            return a[()] if a.ndim == 0 else ArrayLike(a)
        raise ValueError(bad)

    def rec(args, kwargs):
        log.calls.append((pos, args, dict(kwargs)))

    if kind == "shape":
        def f(shape):
            rec((shape,), {})
            return produce(shape)
        return f, set()
    if kind == "shape_name":
        def f(shape, name):
            rec((shape,), {"name": name})
            return produce(shape)
        return f, {"name"}
    if kind == "kwonly_argindex":
        def f(shape, *, arg_index):
            rec((shape,), {"arg_index": arg_index})
            return produce(shape)
        return f, {"arg_index"}
    if kind == "all_optional":
        def f(shape, name=None, arg_index=None, signature=None):
            rec((shape,), {"name": name, "arg_index": arg_index, "signature": signature})
            return produce(shape)
        return f, {"name", "arg_index", "signature"}
    if kind == "var_kwargs":
        def f(shape, **kw):
            rec((shape,), kw)
            return produce(shape)
        return f, {"name", "arg_index", "signature"}
    if kind == "object":
        class Obj:
            def __call__(self, shape, name=None):
                rec((shape,), {"name": name})
                return produce(shape)
        return Obj(), {"name"}
    if kind == "partial":
        def g(shape, arg_index=None, *, extra):
            rec((shape,), {"arg_index": arg_index, "extra": extra})
            return produce(shape)
        return functools.partial(g, extra=7), {"arg_index", "extra"}
    if kind == "builtin":
        return None, set()  # handled by caller (np.ones has no inspectable signature)
    raise ValueError(kind)


def _kwargs(base, graph=False, drop=None):
    kw = dict(base["sizes"])
    if drop is not None:
        kw.pop(drop, None)
    kw.update(base.get("opts") or {})
    if base.get("backend") is not None:
        kw["backend"] = base["backend"]
    if graph:
        kw["graph"] = True
    return kw


def evaluate(rc, stats):
    import einx

    base, kinds = rc["base"], rc["kinds"]
    if base.get("backend") == LV.NAME:
        LV.backend()
    op = base["op"]
    fmask = base["fmask"]
    arrays = G.build_arrays(base)
    env = base["env"]
    shapes = [tuple(int(d) for d in X.shape_of(X.expand(e), env)) for e in base["ins"]]
    fn = getattr(einx, op)
    stats.count("family:" + G.family_of(op))
    stats.count("n_factories:%d" % sum(fmask))
    for k, m in zip(kinds, fmask):
        if m:
            stats.count("kind:" + k)

    # plain reference call (C01 decides its values; here only equality with the factory call matters)
    values = list(arrays)
    for i, (m, k) in enumerate(zip(fmask, kinds)):
        if m and k == "builtin":
            values[i] = np.ones(shapes[i])
    with warnings.catch_warnings():
        warnings.simplefilter("ignore")
        try:
            ref = fn(base["desc"], *[np.array(v, copy=True) for v in values], **_kwargs(base))
        except einx.errors.OperationNotSupportedError:
            stats.count("skip:unsupported")
            return []
        except Exception:  # noqa: BLE001
            stats.count("skip:plain_call_raised")
            return []

    def build_args(log, bad=None, bad_pos=None):
        args, declared = [], {}
        for i, (m, k) in enumerate(zip(fmask, kinds)):
            if not m:
                args.append(np.array(values[i], copy=True))
                continue
            if k == "builtin" and not (bad is not None and i == bad_pos):
                counter = {"n": 0}
                args.append(np.ones)
                declared[i] = None
                continue
            kk = "shape" if k == "builtin" else k
            f, decl = make_factory(kk, i, np.array(values[i], copy=True), log, bad=bad if i == bad_pos else None)
            args.append(f)
            declared[i] = decl
        return args, declared

    def fail(kind, msg):
        return [Violation(f"C13|{kind}|{G.family_of(op)}", f"{op}({base['desc']!r}, factories at {[i for i, m in enumerate(fmask) if m]} kinds={[k for k, m in zip(kinds, fmask) if m]}, sizes={base['sizes']}, backend={base.get('backend')}): {msg}")]

    def check_log(log, declared, what):
        by_pos = {}
        for pos, args, kw in log.calls:
            by_pos.setdefault(pos, []).append((args, kw))
        for i, decl in declared.items():
            if decl is None:
                continue  # np.ones is not instrumented
            calls = by_pos.get(i, [])
            if len(calls) != 1:
                return fail("count", f"{what}: factory #{i} invoked {len(calls)} times, expected exactly once")
            (args, kw) = calls[0]
            shp = args[0]
            if not isinstance(shp, tuple) or not all(type(s) is int for s in shp):
                return fail("argtype", f"{what}: factory #{i} received shape {shp!r} ({[type(s).__name__ for s in shp] if isinstance(shp, tuple) else type(shp).__name__}), expected a tuple of Python ints")
            if tuple(shp) != shapes[i]:
                return fail("shape", f"{what}: factory #{i} received shape {shp}, expression resolves to {shapes[i]}")
            extra = set(kw) - decl
            if extra:
                return fail("kwargs", f"{what}: factory #{i} received undeclared keywords {sorted(extra)}")
            if "name" in kw and kw["name"] != op:
                return fail("name", f"{what}: factory #{i} received name={kw['name']!r}, expected {op!r}")
            if "arg_index" in kw and kw["arg_index"] != i:
                return fail("arg_index", f"{what}: factory #{i} received arg_index={kw['arg_index']!r}")
            if "name" in decl and "name" not in kw:
                return fail("name_missing", f"{what}: factory #{i} declares name but did not receive it")
            if "arg_index" in decl and "arg_index" not in kw:
                return fail("arg_index_missing", f"{what}: factory #{i} declares arg_index but did not receive it")
            if "extra" in decl and kw.get("extra") != 7:
                return fail("partial", f"{what}: partial keyword lost")
        return []

    nt_key = [G.canon_key(base), fmask, [k for k, m in zip(kinds, fmask) if m]]
    if base["sizes"] or len(base["ins"]) >= 2:
        stats.nt(nt_key)
    stats.sample({"op": op, "desc": base["desc"], "factories": [i for i, m in enumerate(fmask) if m], "kinds": [k for k, m in zip(kinds, fmask) if m], "sizes": base["sizes"], "backend": base.get("backend")})

    with warnings.catch_warnings():
        warnings.simplefilter("ignore")
        # 1+2: first call and cached repeat
        for what in ("first call", "cached repeat"):
            log = Log()
            args, declared = build_args(log)
            try:
                got = fn(base["desc"], *args, **_kwargs(base))
            except Exception as e:  # noqa: BLE001
                cause = e.__cause__ if isinstance(e, einx.errors.CallOperationError) and e.__cause__ else e
                return [Violation(common.exc_bucket(PROP, cause, G.family_of(op)), f"{what}: {op}({base['desc']!r}) with factories at {[i for i, m in enumerate(fmask) if m]} (kinds {kinds}) raised {type(e).__name__}: {str(e)[-300:]}; sizes={base['sizes']} backend={base.get('backend')}")]
            v = check_log(log, declared, what)
            if v:
                return v
            g = got if isinstance(got, tuple) else (got,)
            r = ref if isinstance(ref, tuple) else (ref,)
            if len(g) != len(r):
                return fail("result", f"{what}: arity differs")
            for a, b in zip(r, g):
                a, b = np.asarray(a), np.asarray(b)
                if a.shape != b.shape or not np.array_equal(a, b, equal_nan=True):
                    return fail("result", f"{what}: result differs from passing the produced tensors directly")
        stats.count("step:first+cached")
        # 3: graph=True never invokes
        log = Log()
        args, declared = build_args(log)
        try:
            code = fn(base["desc"], *args, **_kwargs(base, graph=True))
        except Exception as e:  # noqa: BLE001
            return fail("graph_raised", f"graph=True raised {type(e).__name__}: {str(e)[:200]}")
        if log.calls:
            return fail("graph_invoked", f"graph=True invoked factories {[c[0] for c in log.calls]}")
        if not isinstance(code, str):
            return fail("graph_type", f"graph=True returned {type(code).__name__}")
        stats.count("step:graph")
        # 4: solve_shapes / matches never invoke
        log = Log()
        args, declared = build_args(log)
        try:
            einx.matches(X.p_desc(base["ins"]), *args, **base["sizes"])
            try:
                einx.solve_shapes(X.p_desc(base["ins"]), *args, **base["sizes"])
            except Exception:  # noqa: BLE001
                pass
        except Exception as e:  # noqa: BLE001
            return fail("matches_raised", f"matches raised {type(e).__name__}")
        if log.calls:
            return fail("solve_invoked", f"solve_shapes/matches invoked factories {[c[0] for c in log.calls]}")
        stats.count("step:solve")
        # 5: the factory contributes no constraint
        known_names = set()
        for e, m in zip(base["ins"], fmask):
            if not m:
                for l, _ in X.walk_leaves(X.expand(e)):
                    if l[0] == "ax":
                        known_names.add(l[1].split(".")[0])
        cands = [k for k in base["meta"].get("minimal", []) if k in base["sizes"] and k not in known_names and k not in base.get("protected", [])]
        if cands:
            drop = cands[rc["drop"] % len(cands)]
            log = Log()
            args, declared = build_args(log)
            try:
                fn(base["desc"], *args, **_kwargs(base, drop=drop))
                return fail("constraint_from_factory", f"call succeeded without size {drop!r}, which only a factory's shape could determine")
            except (einx.errors.AxisSizeError, einx.errors.RankError, einx.errors.SemanticError):
                pass
            except Exception as e:  # noqa: BLE001
                cause = e.__cause__ if isinstance(e, einx.errors.CallOperationError) and e.__cause__ else e
                return [Violation(common.exc_bucket(PROP, cause, "dropped_size"), f"dropping size {drop!r} raised {type(e).__name__}: {str(e)[:200]} ({op}({base['desc']!r}))")]
            if log.calls:
                return fail("rejected_invoked", f"rejected call (size {drop!r} removed) invoked factories {[c[0] for c in log.calls]}")
            stats.count("step:dropped_size")
        # 6: misbehaving factory
        bp = rc["bad_pos"]
        if fmask[bp]:
            log = Log()
            args, declared = build_args(log, bad=rc["bad"], bad_pos=bp)
            bad = rc["bad"]
            degenerate = False
            if bad in ("list",):
                degenerate = False
            try:
                res = fn(base["desc"], *args, **_kwargs(base))
                return fail("bad_accepted:" + bad, f"factory #{bp} returned {bad} but the call produced a result")
            except Exception:  # noqa: BLE001
                stats.count("step:bad_rejected")
    return []


def replay_case(case):
    return evaluate(case, common.Stats())


def make_strategy(tier, k):
    return c13_case(tier, k)


def worker(k, n, tier, seed, known_buckets, extra):
    return standard_worker(PROP, make_strategy(tier, k), evaluate, k, n, tier, seed, known_buckets, quick_examples=1600, thorough_examples=80000)


def run(tier, seed, known_buckets):
    return standard_run(PROP, tier, seed, known_buckets)

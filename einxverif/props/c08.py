"""C08 -- results depend on axis names/positions only as the notation says (equivariance)."""

import copy

import numpy as np
from hypothesis import strategies as st

from .. import common, gen as G, loopsem as L, expr as X, relations as R, loopvmap as LV
from ..common import Violation
from . import c01
from ._base import standard_run, standard_worker

PROP = "C08"
RULE = (
    "From a generated call with explicit outputs (all operation families, numpy-family backends and the loop-vmap double) one metamorphic twin is "
    "derived: R1 consistent renaming (fresh names, swaps, names reversing lexicographic order); R2 reordering the top-level "
    "items of one input (bracketed items keep their relative order) with the tensor transposed accordingly; R3 the same on "
    "an output, expecting the transposed result; R4 grouping/ungrouping adjacent top-level items with parentheses on tensor "
    "and expression (inputs) or expected result (outputs), passing the lengths that become un-inferable; R5 inversion "
    "id(B->A, id(A->B, x)) == x and R6 composition id(B->C, id(A->B, x)) == id(A->C, x) for pure rearrangements (incl. "
    "concatenation for R5). Non-trivial: at least two of the axes involved have equal length or one has length 1 and the call "
    "has >=2 axes; distinct by (relation, canonical base call)."
)
ASSUMPTIONS = c01.ASSUMPTIONS + [
    "einx is compared with itself (metamorphic); values: ints/bools exact, floats rtol 1e-9",
    "set_at only with uncontested coordinates; implicit outputs are not used",
]

TWIN_RELS = ["rename", "perm_in", "perm_out", "group_in", "group_out", "ungroup_in", "ungroup_out"]
RELS = TWIN_RELS + ["inverse", "compose"]


@st.composite
def relation_case(draw, tier="quick", k=0):
    """One base call; 'all' = every twin relation is derived from it and checked."""
    rel = draw(st.sampled_from(["all", "all", "all", "all", "inverse", "compose"]))
    if rel == "inverse":
        base = draw(G.pure_id_case())
    elif rel == "compose":
        base = draw(G.pure_id_case(with_third=True))
    else:
        # a repeated axis (diagonal) makes einx emit two transposes in a row; permuting the output then exercises their merge
        flags = {"more_diag": True} if draw(st.integers(0, 3)) == 0 else None
        base = draw(G.stratified_case(k, quick=(tier == "quick"), backends=G.BACKENDS + [LV.NAME], flags=flags))
    rnd = [draw(st.integers(0, 10**6)) for _ in range(6)]
    return {"rel": rel, "base": base, "rnd": rnd}


def _perm_from(rnd, n):
    rng = np.random.default_rng(rnd)
    return [int(i) for i in rng.permutation(n)]


def _br_fix(items, order):
    """Make `order` keep the relative order of bracket-containing items."""
    # items with '+' keep their order too: the order of concatenated axes defines the order of the
    # decomposed tensors, so moving one across another is not a "reordering of axes" in the property's sense
    br_idx = [i for i, it in enumerate(items) if R.contains_br(it) or R.contains_kind(it, "cat")]
    slots = [p for p, i in enumerate(order) if i in br_idx]
    out = list(order)
    for p, i in zip(slots, br_idx):
        out[p] = i
    return out


def derive(rc):
    """Returns None (relation not applicable to this base) or a dict describing the twin."""
    rel, base, rnd = rc["rel"], rc["base"], rc["rnd"]
    env = base["env"]
    if rel == "rename":
        names = {k.split(".")[0] for k in env if not k.startswith("#")} | set(base["sizes"].keys())
        for e in base["ins"] + base["outs"]:
            for it in R._nodes(e):
                if it[0] == "ax":
                    names.add(it[1].split(".")[0])
        names = sorted(names)
        if not names:
            return None
        rng = np.random.default_rng(rnd[0])
        mode = rnd[1] % 3
        mapping = {}
        if mode == 0 and len(names) >= 2:  # permutation among used names
            p = rng.permutation(len(names))
            mapping = {names[i]: names[int(p[i])] for i in range(len(names))}
        else:
            pool = [n for n in G.NAMES if n not in names] + ["zz9", "q_", "A", "m1", "axis_with_long_name", "Z", "a_"]
            pool = [n for n in dict.fromkeys(pool) if n not in names]
            if mode == 1:  # reverse lexicographic order w.r.t. sorted position
                fresh = sorted(pool)[: len(names)][::-1]
                mapping = dict(zip(sorted(names), fresh))
            else:
                idx = rng.permutation(len(pool))[: len(names)]
                mapping = {n: pool[int(i)] for n, i in zip(names, idx)}
        if all(k == v for k, v in mapping.items()):
            return None
        twin = R.rename_case(base, mapping)
        return {"twin": twin, "in_tf": None, "out_tf": None, "detail": {"mapping": mapping}}
    if rel in ("perm_in", "perm_out"):
        side = "ins" if rel == "perm_in" else "outs"
        cands = [i for i, e in enumerate(base[side]) if len(e) >= 2]
        if not cands:
            return None
        i = cands[rnd[0] % len(cands)]
        items = base[side][i]
        order = _br_fix(items, _perm_from(rnd[1], len(items)))
        if order == list(range(len(items))):
            order = _br_fix(items, list(range(len(items)))[::-1])
            if order == list(range(len(items))):
                return None
        new_items, perm = R.permute_items(items, order)
        twin = copy.deepcopy(base)
        twin[side][i] = new_items
        twin["desc"] = X.p_desc(twin["ins"], twin["outs"])
        return {"twin": twin, "in_tf": (i, "transpose", perm) if side == "ins" else None, "out_tf": (i, "transpose", perm) if side == "outs" else None, "detail": {"order": order}}
    if rel in ("group_in", "group_out"):
        side = "ins" if rel == "group_in" else "outs"
        cands = []
        for i, e in enumerate(base[side]):
            for a in range(len(e)):
                for b in range(a + 1, min(len(e), a + 3) + 1):
                    if not any(R.contains_kind(it, "ell") for it in e[a:b]):
                        cands.append((i, a, b))
        if not cands:
            return None
        i, a, b = cands[rnd[0] % len(cands)]
        new_items, reshape, names = R.group_run(base[side][i], a, b, env)
        twin = copy.deepcopy(base)
        twin[side][i] = new_items
        for nm in names:
            if "." not in nm:
                twin["sizes"][nm] = env[nm]
        twin["desc"] = X.p_desc(twin["ins"], twin["outs"])
        return {"twin": twin, "in_tf": (i, "reshape", (a, b)) if side == "ins" else None, "out_tf": (i, "reshape", (a, b)) if side == "outs" else None, "detail": {"run": [a, b]}, "_reshape": reshape}
    if rel in ("ungroup_in", "ungroup_out"):
        side = "ins" if rel == "ungroup_in" else "outs"
        cands = []
        for i, e in enumerate(base[side]):
            for a, it in enumerate(e):
                if it[0] == "flat" and not R.contains_kind(it, "ell"):
                    cands.append((i, a))
        if not cands:
            return None
        i, a = cands[rnd[0] % len(cands)]
        new_items, reshape = R.ungroup(base[side][i], a, env)
        twin = copy.deepcopy(base)
        twin[side][i] = new_items
        twin["desc"] = X.p_desc(twin["ins"], twin["outs"])
        return {"twin": twin, "in_tf": (i, "reshape", a) if side == "ins" else None, "out_tf": (i, "reshape", a) if side == "outs" else None, "detail": {"flat_at": a}, "_reshape": reshape}
    return None


def _call(case, arrays):
    return c01.call_einx(case, [np.array(a, copy=True) for a in arrays])


def _tuple(r, n):
    return tuple(r) if n > 1 else (r,)


def _eq(a, b):
    a, b = np.asarray(a), np.asarray(b)
    if a.shape != b.shape:
        return f"shape {b.shape} != {a.shape}"
    if a.dtype.kind in "biu" and b.dtype.kind in "biu":
        return None if np.array_equal(a, b) else L._first_diff(a, b)
    if not np.allclose(a.astype(np.float64), b.astype(np.float64), rtol=1e-9, atol=1e-11, equal_nan=True):
        return L._first_diff(a.astype(np.float64), b.astype(np.float64))
    return None


def _lens_involved(case):
    return [v for k, v in case["env"].items()]


def evaluate(rc, stats):
    if rc["rel"] == "all":
        out = []
        cache = {}
        for rel in TWIN_RELS:
            out.extend(evaluate_one({"rel": rel, "base": rc["base"], "rnd": rc["rnd"]}, stats, cache))
            if out:
                break
        return out
    return evaluate_one(rc, stats, {})


def evaluate_one(rc, stats, cache):
    import einx

    rel, base = rc["rel"], rc["base"]
    stats.count("rel:" + rel)
    arrays = G.build_arrays(base)
    if base["op"] == "set_at":
        try:
            exp = L.run_update("set_at", base["ins"], base["outs"][0], base["env"], arrays)
            if any(len(s) > 1 for s in exp.reshape(-1)):
                stats.count("skip:contested_set_at")
                return []
        except L.Unsupported:
            return []
    lens = _lens_involved(base)
    big = [v for v in lens if v > 1]
    nontrivial = len(lens) >= 2 and (len(big) != len(set(big)) or 1 in lens)

    def fail(kind, msg, e=None):
        if e is not None:
            cause = e.__cause__ if isinstance(e, einx.errors.CallOperationError) and e.__cause__ else e
            return [Violation(common.exc_bucket(PROP, cause, rel), msg)]
        return [Violation(f"C08|{kind}|{rel}|{G.family_of(base['op'])}", msg)]

    if "r0" in cache:
        r0 = cache["r0"]
    else:
        try:
            r0 = _call(base, arrays)
        except einx.errors.OperationNotSupportedError:
            r0 = "unsupported"
        except Exception as e:  # noqa: BLE001
            r0 = "raised"
        cache["r0"] = r0
    if isinstance(r0, str):
        stats.count("skip:base_" + r0)  # a failing well-formed base call is C01's business
        return []
    r0 = _tuple(r0, len(base["outs"]))

    if rel in ("inverse", "compose"):
        sizes = R.all_named_sizes(base)
        kw = dict(sizes)
        if base.get("backend") is not None:
            kw["backend"] = base["backend"]
        if rel == "inverse":
            desc = X.p_desc(base["outs"], base["ins"])
            try:
                back = einx.id(desc, *r0, **kw)
            except Exception as e:  # noqa: BLE001
                return fail("exc", f"inverse id({desc!r}) raised {type(e).__name__}: {str(e)[:300]} (forward {base['desc']!r})", e)
            back = _tuple(back, len(base["ins"]))
            stats.count("checked")
            if nontrivial:
                stats.nt([rel, G.canon_key(base)])
            stats.sample({"rel": rel, "forward": base["desc"], "backward": desc, "shapes": [list(a.shape) for a in arrays]})
            for a, b in zip(arrays, back):
                m = _eq(a, b)
                if m:
                    return fail("value", f"id({desc!r}, id({base['desc']!r}, x)) != x: {m}; sizes={sizes} backend={base.get('backend')}")
            return []
        d1 = X.p_desc(base["outs"], base["outs2"])
        d2 = X.p_desc(base["ins"], base["outs2"])
        try:
            two = _tuple(einx.id(d1, *r0, **kw), len(base["outs2"]))
            one = _tuple(einx.id(d2, *arrays, **kw), len(base["outs2"]))
        except Exception as e:  # noqa: BLE001
            return fail("exc", f"composition {base['desc']!r} ; {d1!r} vs {d2!r} raised {type(e).__name__}: {str(e)[:300]}", e)
        stats.count("checked")
        if nontrivial:
            stats.nt([rel, G.canon_key(base), d2])
        stats.sample({"rel": rel, "A->B": base["desc"], "B->C": d1, "A->C": d2})
        for a, b in zip(one, two):
            m = _eq(a, b)
            if m:
                return fail("value", f"id({d1!r}, id({base['desc']!r}, x)) != id({d2!r}, x): {m}; backend={base.get('backend')}")
        return []

    d = derive(rc)
    if d is None:
        stats.count("skip:not_applicable")
        return []
    twin = d["twin"]
    arrays2 = list(arrays)
    if d["in_tf"] is not None:
        i, kind, arg = d["in_tf"]
        arrays2[i] = np.transpose(arrays[i], arg) if kind == "transpose" else d["_reshape"](arrays[i])
    try:
        r1 = _call(twin, arrays2)
    except Exception as e:  # noqa: BLE001
        return fail("exc", f"{rel}: base {base['op']}({base['desc']!r}) succeeded but twin ({twin['desc']!r}, sizes={twin['sizes']}, shapes={[np.shape(a) for a in arrays2]}) raised {type(e).__name__}: {str(e)[:300]}", e)
    r1 = _tuple(r1, len(twin["outs"]))
    expected = list(r0)
    if d["out_tf"] is not None:
        j, kind, arg = d["out_tf"]
        expected[j] = np.transpose(np.asarray(r0[j]), arg) if kind == "transpose" else d["_reshape"](np.asarray(r0[j]))
    stats.count("checked")
    if nontrivial:
        stats.nt([rel, G.canon_key(base), d["detail"]])
    stats.sample({"rel": rel, "base": base["desc"], "twin": twin["desc"], "shapes": [list(a.shape) for a in arrays], "backend": base.get("backend")})
    for a, b in zip(expected, r1):
        m = _eq(a, b)
        if m:
            return fail("value", f"{rel}: {base['op']}({base['desc']!r}) vs twin ({twin['desc']!r}; {d['detail']}) shapes={[a.shape for a in arrays]} backend={base.get('backend')}: {m}")
    return []


def replay_case(case):
    return evaluate(case, common.Stats())


def make_strategy(tier, k):
    return relation_case(tier, k)


def worker(k, n, tier, seed, known_buckets, extra):
    return standard_worker(PROP, make_strategy(tier, k), evaluate, k, n, tier, seed, known_buckets, quick_examples=1400, thorough_examples=60000)


def run(tier, seed, known_buckets):
    return standard_run(PROP, tier, seed, known_buckets)

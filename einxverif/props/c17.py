"""C17 -- generated code is loop-free and size-generic."""

import ast
import copy
import re
import warnings

import numpy as np
from hypothesis import strategies as st

from .. import common, gen as G, expr as X, loopvmap as LV, graphs as GR
from ..common import Violation
from . import c01
from ._base import standard_run, standard_worker

PROP = "C17"
RULE = (
    "For generated calls of every operation family on every numpy-family backend, on the vmap adapter chain over the loop-vmap double (backend numpy.loopvmap) and for functions adapted with adapt_with_vmap (nested function definitions) the code returned with graph=True is requested "
    "for the drawn axis lengths and for 4 further length assignments in which every length > 1 is re-drawn (from 2..64; twice from 2..6, "
    "so that lengths coincide with shifts, numeric axes and each other; once all equal) "
    "(length-1 axes, numeric literals and structural coordinate counts stay; keyword sizes follow). Oracle: (1) the Python AST "
    "of each text contains only imports, function definitions, assignments, calls, attribute/subscript/slice access, "
    "tuples/lists/dicts, names, constants, unary/binary/compare operators, assert and return - no loops, conditionals, "
    "comprehensions, lambdas, try/with; (2) the AST dumps of all variants are identical after masking integer literals "
    "(and digits inside string constants); (3) the base call is traced twice more with the compile cache cleared: same masked AST "
    "(the structure must not depend on the identifiers einx draws for unnamed axes); (4) a batch of generated calls (480 quick / 6400 thorough) "
    "is compiled in three fresh interpreters with different PYTHONHASHSEED values: equal masked ASTs. Non-trivial: variants differ in >=2 axis lengths and the code has >=3 statements; "
    "distinct by canonical call."
)
ASSUMPTIONS = [
    "only numpy is importable; vmap-style code comes from einx's jax front-end run over numpy + a loop vmap (einxverif/loopvmap.py)",
    "tensor arguments are zero-stride placeholder arrays of the requested shapes (compilation only looks at shapes)",
]

ALLOWED = (
    ast.Module, ast.Import, ast.ImportFrom, ast.alias, ast.FunctionDef, ast.arguments, ast.arg, ast.Assign, ast.Expr, ast.Return, ast.Assert,
    ast.Call, ast.keyword, ast.Attribute, ast.Subscript, ast.Slice, ast.Tuple, ast.List, ast.Dict, ast.Name, ast.Constant, ast.Load, ast.Store,
    ast.UnaryOp, ast.BinOp, ast.Compare, ast.BoolOp, ast.USub, ast.UAdd, ast.Not, ast.Invert, ast.Add, ast.Sub, ast.Mult, ast.Div, ast.FloorDiv, ast.Mod, ast.Pow,
    ast.Eq, ast.NotEq, ast.Lt, ast.LtE, ast.Gt, ast.GtE, ast.Is, ast.IsNot, ast.In, ast.NotIn, ast.And, ast.Or, ast.Starred,
)  # fmt: skip


C17_BACKENDS = [None, "numpy", "numpy.numpylike", "numpy.einsum", LV.NAME, LV.NAME]
_VM = []


def _vm_user(*xs, scale=1.0):  # never executed: only graph=True is requested
    raise AssertionError("the adapted function must not run for graph=True")


@st.composite
def c17_case(draw, tier="quick", k=0):
    r = draw(st.integers(0, 15))
    if r <= 1:
        base = draw(G.call_case(ops=["vmapop"], quick=True, backends=[None]))
        base["adapter"] = "vmap"
    elif r in (3, 4):
        # several adjacent output-only axes (overlapping candidates of the common-subexpression pass)
        base = draw(G.call_case(ops=G.FAMILY_OPS["elementwise"] + G.REDUCE + G.ARGFIND + ["id", "get_at"], quick=True, backends=C17_BACKENDS, flags={"bcast_heavy": True, "no_diag": True}))
    elif r == 2:
        # the one operation with an integer argument that relates to axis lengths (shift vs. length of the rolled axis)
        base = draw(G.call_case(ops=["roll"], quick=(tier == "quick"), backends=C17_BACKENDS))
    else:
        base = draw(G.stratified_case(k, quick=(tier == "quick"), backends=C17_BACKENDS))
    seeds = [draw(st.integers(0, 2**20)) for _ in range(4)]
    return {"base": base, "seeds": seeds}


def rescale(base, seed, mode="wide"):
    """Re-draw every axis length > 1 (named axes only; structural and numeric axes stay).

    mode "wide": lengths from 2..64; "small": from 2..6 (coincidences with small integer arguments such as shifts, numeric
    axes and other axes' lengths); "equal": one common length for every re-drawn axis."""
    rng = np.random.default_rng(seed)
    common_len = int(rng.integers(2, 9))
    env = dict(base["env"])
    protected = set()
    fam = G.family_of(base["op"])
    # structural: named coordinate / argfind output axes carry counts
    if fam in ("get_at", "update"):
        coords = base["ins"][1:] if fam == "get_at" else base["ins"][1:-1]
        for e in coords:
            for l, b in X.walk_leaves(X.expand(e)):
                if b and l[0] == "ax":
                    protected.add(l[1])
    if fam == "argfind":
        for l, b in X.walk_leaves(X.expand(base["outs"][0])):
            if b and l[0] == "ax":
                protected.add(l[1])
    for k, v in env.items():
        if k.startswith("#") or k in protected or v == 1:
            continue
        env[k] = int(rng.integers(2, 65)) if mode == "wide" else (int(rng.integers(2, 7)) if mode == "small" else common_len)
    # bound the placeholder sizes (zero-stride anyway) and keep everything exact
    c = copy.deepcopy(base)
    c["env"] = env
    sizes = {}
    for k, v in base["sizes"].items():
        if isinstance(v, list):
            sizes[k] = [env[f"{k}.{i}"] for i in range(len(v))]
        else:
            if k in env:
                sizes[k] = env[k]
            else:  # scalar size of an ellipsis family (all repetitions equal): make them equal again
                members = sorted(m for m in env if m.startswith(k + "."))
                val = env[members[0]] if members else v
                for m in members:
                    env[m] = val
                sizes[k] = val
    c["sizes"] = sizes
    return c


def placeholder(shape, kind):
    dt = np.int64 if kind in ("perm", "smallint", "posint", "coord") else (np.bool_ if kind == "bool" else np.float64)
    return np.broadcast_to(np.zeros((), dtype=dt), tuple(shape))


def get_code(case):
    env = case["env"]
    arrays = [placeholder(X.shape_of(X.expand(e), env), d["kind"]) for e, d in zip(case["ins"], case["data"])]
    if case.get("backend") == LV.NAME:
        LV.backend()
    if case.get("adapter") == "vmap":
        if not _VM:
            _VM.append(LV.adapt_with_vmap(_vm_user))
        return _VM[0](case["desc"], *arrays, graph=True, **case["sizes"])
    return c01.call_einx(case, arrays, graph=True)


class _Mask(ast.NodeTransformer):
    def visit_Constant(self, node):
        if isinstance(node.value, bool):
            return node
        if isinstance(node.value, int):
            return ast.copy_location(ast.Constant(value=0), node)
        if isinstance(node.value, str):
            return ast.copy_location(ast.Constant(value=re.sub(r"\d+", "0", node.value)), node)
        return node


def masked_dump(tree):
    return ast.dump(_Mask().visit(copy.deepcopy(tree)))


def evaluate(rc, stats):
    import einx

    base = rc["base"]
    variants = [base] + [rescale(base, s, m) for s, m in zip(rc["seeds"], ["wide", "small", "equal", "small"])]
    codes = []
    for v in variants:
        try:
            with warnings.catch_warnings():
                warnings.simplefilter("ignore")
                codes.append(get_code(v))
        except einx.errors.OperationNotSupportedError:
            stats.count("skip:unsupported")
            return []
        except Exception as e:  # noqa: BLE001
            if v is base:
                stats.count("skip:base_raised")  # C01's business
                return []
            return [Violation(common.exc_bucket(PROP, e, "rescaled"), f"{base['op']}({base['desc']!r}) compiles for env {base['env']} but raises {type(e).__name__} for env {v['env']} sizes {v['sizes']}: {str(e)[:300]}")]
    stats.count("family:" + G.family_of(base["op"]))
    stats.count("backend:" + str(base.get("backend")))
    trees = []
    for code, v in zip(codes, variants):
        if not isinstance(code, str):
            return [Violation("C17|not_text", f"graph=True returned {type(code).__name__}")]
        try:
            tree = ast.parse(code)
        except SyntaxError as e:
            return [Violation("C17|unparsable", f"{base['op']}({base['desc']!r}): generated code does not parse: {e}")]
        for node in ast.walk(tree):
            if not isinstance(node, ALLOWED):
                return [Violation(f"C17|construct|{type(node).__name__}", f"{base['op']}({base['desc']!r}) env={v['env']}: generated code contains {type(node).__name__}:\n{code}")]
        trees.append(tree)
    dumps = [masked_dump(t) for t in trees]
    nstat = sum(1 for n in ast.walk(trees[0]) if isinstance(n, (ast.Assign, ast.Expr, ast.Return, ast.Assert)))
    ndiff = max(sum(1 for k in base["env"] if base["env"][k] != v["env"][k]) for v in variants[1:])
    if ndiff >= 2 and nstat >= 3:
        stats.nt(G.canon_key(base))
    stats.count("variants", len(variants))
    stats.sample({"op": base["op"], "desc": base["desc"], "envs": [v["env"] for v in variants[:2]], "code": codes[0]}, cap=4)
    # the structure is a function of the description, the backend and the argument kinds: tracing the very same call again
    # (compile cache cleared) must give the same structure, whatever identifiers einx draws for unnamed axes
    import einx as _einx

    fn = _VM[0] if base.get("adapter") == "vmap" else getattr(_einx, base["op"])
    for rep in range(2):
        if GR.clear_op_cache(fn) == 0:
            stats.count("retrace:no_cache_found")
            break
        try:
            with warnings.catch_warnings():
                warnings.simplefilter("ignore")
                again = get_code(base)
        except Exception as e:  # noqa: BLE001
            return [Violation(common.exc_bucket(PROP, e, "retrace"), f"{base['op']}({base['desc']!r}) compiled once but raised {type(e).__name__} when traced again: {str(e)[:200]}")]
        stats.count("retraces")
        if masked_dump(ast.parse(again)) != dumps[0]:
            return [
                Violation(
                    f"C17|retrace_differs|{G.family_of(base['op'])}",
                    f"{base['op']}({base['desc']!r}) backend={base.get('backend')} env={base['env']}: tracing the same call twice gives different code:\n--- A\n{codes[0]}\n--- B\n{again}",
                )
            ]
    for i in range(1, len(dumps)):
        if dumps[i] != dumps[0]:
            return [
                Violation(
                    f"C17|size_dependent|{G.family_of(base['op'])}",
                    f"{base['op']}({base['desc']!r}) backend={base.get('backend')}: code structure differs between env {base['env']} and {variants[i]['env']}:\n--- A\n{codes[0]}\n--- B\n{codes[i]}",
                )
            ]
    return []


def replay_case(case):
    if case.get("crosshash"):
        return replay_crosshash(case)
    return evaluate(case, common.Stats())


def replay_crosshash(case):
    import json
    import os
    import shutil
    import subprocess
    import sys
    import tempfile

    work = tempfile.mkdtemp(prefix="einxverif_c17x_")
    try:
        src = os.path.join(work, "cases.json")
        with open(src, "w") as f:
            f.write(common.jdump([case["base"]]))
        res = []
        for i, hs in enumerate(case["hashseeds"]):
            env = dict(os.environ)
            env["PYTHONHASHSEED"] = hs
            dst = os.path.join(work, f"out{i}.json")
            p_ = subprocess.run([sys.executable, "-W", "ignore", "-m", "einxverif.c17_child", src, dst], env=env, cwd=common.VERIF, capture_output=True)
            if p_.returncode != 0:
                raise common.HarnessError(f"C17 child failed: {p_.stdout.decode()[-800:]}{p_.stderr.decode()[-800:]}")
            res.append(json.load(open(dst))[0])
        if all(r[0] == "ok" for r in res) and res[0][1] != res[1][1]:
            return [Violation(f"C17|hashseed_dependent|{G.family_of(case['base']['op'])}", f"{case['base']['op']}({case['base']['desc']!r}): code structure differs between PYTHONHASHSEED={case['hashseeds'][0]} and {case['hashseeds'][1]}")]
        return []
    finally:
        shutil.rmtree(work, ignore_errors=True)


def make_strategy(tier, k):
    return c17_case(tier, k)


def cross_hash_pass(k, n, tier, seed, known_buckets):
    """(4) the structure must not depend on PYTHONHASHSEED either: a batch of generated calls is compiled in three fresh
    interpreters with different hash seeds; the integer-masked ASTs must agree."""
    import json
    import os
    import shutil
    import subprocess
    import sys
    import tempfile

    per = int((480 if tier == "quick" else 6400) * common.SCALE) // n + 1
    cases = []

    def collect(rc, stats):
        cases.append(rc["base"])
        return []

    stats, _ = common.hyp_search(PROP, make_strategy(tier, k), collect, seed=seed * 1000 + 500 + k, max_examples=per, known_buckets=known_buckets, shrink_budget_s=1.0)
    stats.evaluations = 0
    work = tempfile.mkdtemp(prefix="einxverif_c17x_")
    viols = []
    try:
        src = os.path.join(work, "cases.json")
        with open(src, "w") as f:
            f.write(common.jdump(cases))
        seeds = ["0", str(1 + (seed * 7919 + k * 104729) % 1000003), str(1 + (seed * 15485863 + k * 32452843) % 999983)]
        outs = []
        procs = []
        for i, hs in enumerate(seeds):
            env = dict(os.environ)
            env["PYTHONHASHSEED"] = hs
            dst = os.path.join(work, f"out{i}.json")
            procs.append((subprocess.Popen([sys.executable, "-W", "ignore", "-m", "einxverif.c17_child", src, dst], env=env, cwd=common.VERIF, stdout=subprocess.PIPE, stderr=subprocess.STDOUT), dst))
        for p_, dst in procs:
            out, _ = p_.communicate()
            if p_.returncode != 0 or not os.path.exists(dst):
                raise common.HarnessError(f"C17 child failed: {out.decode()[-1500:]}")
            outs.append(json.load(open(dst)))
        for i, base in enumerate(cases):
            rs = [o[i] for o in outs]
            if any(r[0] != "ok" for r in rs):
                stats.count("crosshash:skipped_raised")
                continue
            stats.evaluations += 1
            stats.count("crosshash:compared")
            stats.nt(["crosshash", G.canon_key(base)])
            for j in range(1, len(rs)):
                if rs[j][1] != rs[0][1]:
                    b = f"C17|hashseed_dependent|{G.family_of(base['op'])}"
                    if b in known_buckets:
                        stats.excluded[b] = stats.excluded.get(b, 0) + 1
                        break
                    viols.append(
                        {
                            "bucket": b,
                            "message": f"{base['op']}({base['desc']!r}) backend={base.get('backend')} env={base['env']}: code structure differs between PYTHONHASHSEED={seeds[0]} and {seeds[j]}:\n--- A\n{rs[0][2]}\n--- B\n{rs[j][2]}",
                            "case": {"crosshash": True, "base": base, "hashseeds": [seeds[0], seeds[j]]},
                            "detail": {},
                        }
                    )
                    break
    finally:
        shutil.rmtree(work, ignore_errors=True)
    best = {}
    for v in viols:
        if v["bucket"] not in best or len(v["message"]) < len(best[v["bucket"]]["message"]):
            best[v["bucket"]] = v
    fr = stats.to_fragment()
    fr["violations"] = list(best.values())
    return fr


def worker(k, n, tier, seed, known_buckets, extra):
    fr = standard_worker(PROP, make_strategy(tier, k), evaluate, k, n, tier, seed, known_buckets, quick_examples=1500, thorough_examples=30000)
    fr2 = cross_hash_pass(k, n, tier, seed, known_buckets)
    merged = common.merge_fragments([fr, fr2])
    merged["nontrivial"] = list(merged["nontrivial"])
    return merged


def run(tier, seed, known_buckets):
    return standard_run(PROP, tier, seed, known_buckets)

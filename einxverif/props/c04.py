"""C04 -- generated source is a faithful, self-contained compilation of the traced graph."""

import ast
import copy
import re
import types
import warnings

import numpy as np
from hypothesis import strategies as st

from .. import common, gen as G, graphs as GR, loopvmap as LV
from ..common import Violation
from . import c01
from ._base import standard_run, standard_worker

PROP = "C04"
RULE = (
    "(A) captured: for generated calls of every operation family (and the two numpy adapters) the recording compiler "
    "(run-time interposition) yields graph, text and callable; oracle: graph=True returns exactly the recorded text, the API "
    "invokes the callable compile returned, that callable's code object equals the one obtained by exec-ing the text, the text "
    "exec-ed in a namespace holding only the constants named in its header defines op, op's results and in-place effects "
    "on the call's tensors equal a node-by-node interpretation of the graph, the number of call expressions equals the number "
    "of call nodes (each value computed once) and the text parses. (B) synthetic: Hypothesis builds graphs (1-80 nodes) "
    "from the IR constructors over instrumented Python callables: calls with args/kwargs, in-place calls and item updates on "
    "fresh lists, getattr/getitem (ints, strings, slices), imports, operators, builtins, asserts, casts to tuples, tuple/"
    "list/dict values, nested graphs closing over outer values (called 0/1/many times through higher-order functions), values "
    "used 0/1/many times; compiled text is exec-ed and compared with the interpreter on results, the multiset of instrumented "
    "calls with arguments, and final mutable state. Non-trivial: a multiply-used value, a re-used variable name, an in-place "
    "node or a nested function; distinct by structural hash of the graph."
)
ASSUMPTIONS = [
    "reference interpreter einxverif/graphs.py (independent of compiler/run.py)",
    "variable names, order of independent statements and comments are not compared",
    "in-place nodes are only generated on values whose other readers are ordered by data dependence",
]


C04_BACKENDS = [None, "numpy", "numpy.numpylike", "numpy.einsum", LV.NAME, LV.NAME]

# ------------------------------------------------------------------ helpers


def header_constants(text):
    return re.findall(r"^# Constant (const\d+):", text, flags=re.M)


def exec_text(text, function):
    """exec the text in a namespace containing only the constants its header names."""
    names = header_constants(text)
    glob = getattr(function, "__globals__", {})
    ns = {}
    for n in names:
        if n not in glob:
            raise KeyError(f"header names {n} but the compiled function's globals do not define it")
        ns[n] = glob[n]
    exec(compile(text, "<c04>", "exec"), ns)  # noqa: S102
    return ns


def code_equal(a, b):
    if a.co_code != b.co_code or a.co_names != b.co_names or a.co_varnames != b.co_varnames or a.co_argcount != b.co_argcount:
        return False
    if len(a.co_consts) != len(b.co_consts):
        return False
    for x, y in zip(a.co_consts, b.co_consts):
        if isinstance(x, types.CodeType) != isinstance(y, types.CodeType):
            return False
        if isinstance(x, types.CodeType):
            if not code_equal(x, y):
                return False
        elif x != y or type(x) is not type(y):
            return False
    return True


def deep_equal(a, b):
    if isinstance(a, np.ndarray) or isinstance(b, np.ndarray):
        a, b = np.asarray(a), np.asarray(b)
        if a.shape != b.shape:
            return False
        if a.dtype.kind in "fc" or b.dtype.kind in "fc":
            return bool(np.allclose(a, b, rtol=1e-12, atol=0, equal_nan=True))
        return bool(np.array_equal(a, b))
    if isinstance(a, (list, tuple)):
        return type(a) is type(b) and len(a) == len(b) and all(deep_equal(x, y) for x, y in zip(a, b))
    if isinstance(a, dict):
        return isinstance(b, dict) and a.keys() == b.keys() and all(deep_equal(a[k], b[k]) for k in a)
    if isinstance(a, types.SimpleNamespace):
        return isinstance(b, types.SimpleNamespace) and deep_equal(vars(a), vars(b))
    if callable(a) and callable(b):
        return True
    try:
        return bool(a == b)
    except Exception:  # noqa: BLE001
        return a is b


INLINE_OK = {"isinstance", "tuple", "list"}


def count_text_calls(tree):
    n = 0
    for node in ast.walk(tree):
        if isinstance(node, ast.Call):
            if isinstance(node.func, ast.Name) and node.func.id in INLINE_OK:
                continue
            n += 1
    return n


def count_graph_calls(graph):
    import einx._src.tracer as tracer

    py = tracer.signature.python
    n = 0
    for app in GR.applications(graph):
        if isinstance(app, (py.Call, py.CallInplace)):
            f = app.function
            if isinstance(getattr(f, "origin", None), py.Builtin) and f.origin.name in INLINE_OK:
                continue
            n += 1
    return n


# ------------------------------------------------------------------ (A) captured


def _adapter_fn(x, axis, *, scale=1.0):
    return scale * np.sum(x * x, axis=axis)


def _adapter_el(x, y, *, bias=0.0):
    return x * 2 + y + bias


_AD = {}


def adapters():
    import einx

    if not _AD:
        _AD["reduce"] = einx.numpy.adapt_numpylike_reduce(_adapter_fn)
        _AD["elementwise"] = einx.numpy.adapt_numpylike_elementwise(_adapter_el)
    return _AD


def evaluate_captured(case, stats):
    import einx

    arrays = G.build_arrays(case)
    adapter = case.get("adapter")
    if case.get("backend") == LV.NAME:
        LV.backend()
    if adapter == "vmap":
        import einxverif.expr as X

        class _R:
            calls = []

        fn = LV.adapt_with_vmap(LV.make_elementary("vm", _R(), [tuple(X.br_shape(o, case["env"])) for o in case["outs"]]))
    elif adapter:
        fn = adapters()[adapter]
    if adapter:

        def call(graph=False):
            kw = dict(case["sizes"])
            if graph:
                kw["graph"] = True
            kw.update(case.get("adapter_kwargs") or {})
            with warnings.catch_warnings():
                warnings.simplefilter("ignore")
                return fn(case["desc"], *[a.copy() for a in arrays], **kw)
    else:
        fn = getattr(einx, case["op"])

        def call(graph=False):
            return c01.call_einx(case, [a.copy() for a in arrays], graph=graph)

    GR.clear_op_cache(fn)
    with GR.Recorder() as rec:
        try:
            result = call()
            ok = True
        except Exception:  # noqa: BLE001
            ok = False
        n_after_call = len(rec.compile_calls)
        try:
            text = call(graph=True)
        except Exception:  # noqa: BLE001
            text = None
    if not rec.compile_calls or text is None:
        stats.count("captured:no_compile")
        return []
    stats.count("captured")
    stats.count("captured:" + (f"adapter_{adapter}" if adapter else f"backend_{case.get('backend')}"))
    cc = rec.compile_calls[0]
    where = f"{case.get('adapter') or case['op']}({case['desc']!r}, shapes={[a.shape for a in arrays]}, backend={case.get('backend')})"
    fam = G.family_of(case["op"]) if not adapter else "adapter"
    # (1) text returned == text compiled; compiled callable is what runs
    if len(rec.compile_calls) != 1:
        return [Violation(f"C04|recompiled|{fam}", f"{where}: compile ran {len(rec.compile_calls)} times for call + graph=True")]
    if text != cc["code"]:
        return [Violation(f"C04|text_mismatch|{fam}", f"{where}: graph=True text differs from the text produced by the compiler:\n{text}\n---\n{cc['code']}")]
    if ok and cc["proxy"].calls != 1:
        return [Violation(f"C04|not_invoked|{fam}", f"{where}: the compiled callable was invoked {cc['proxy'].calls} times during one call")]
    # (4) parses
    try:
        tree = ast.parse(text)
    except SyntaxError as e:
        return [Violation(f"C04|unparsable|{fam}", f"{where}: {e}\n{text}")]
    # (2) self-contained + bytecode equality
    try:
        ns = exec_text(text, cc["function"])
    except Exception as e:  # noqa: BLE001
        return [Violation(f"C04|not_self_contained|{fam}|{type(e).__name__}", f"{where}: exec of the text failed: {type(e).__name__}: {e}\n{text}")]
    if "op" not in ns or not callable(ns["op"]):
        return [Violation(f"C04|no_op|{fam}", f"{where}: exec-ed text does not define op\n{text}")]
    f = cc["function"]
    if isinstance(f, types.FunctionType) and isinstance(ns["op"], types.FunctionType):
        if not code_equal(f.__code__, ns["op"].__code__):
            return [Violation(f"C04|bytecode_differs|{fam}", f"{where}: the executed function's code object differs from the code obtained from the text")]
    # (5) computed once (static)
    graph = cc["graph"]
    if isinstance(graph, GR_Graph()):
        nt, ng = count_text_calls(tree), count_graph_calls(graph)
        if nt != ng:
            return [Violation(f"C04|call_count|{fam}", f"{where}: text has {nt} call expressions, graph has {ng} call nodes\n{text}")]
    # (3) faithful: interpreter vs exec-ed text on the call's data
    a1 = [a.copy() for a in arrays]
    a2 = [a.copy() for a in arrays]
    try:
        r_int = GR.Interpreter().run(graph, a1) if isinstance(graph, GR_Graph()) else GR.Interpreter().eval(graph, GR.Frame(None, None))(*a1)
        int_ok = True
    except Exception as e:  # noqa: BLE001
        int_ok, r_int = False, e
    try:
        r_txt = ns["op"](*a2)
        txt_ok = True
    except Exception as e:  # noqa: BLE001
        txt_ok, r_txt = False, e
    names = set(re.findall(r"\b([a-z]{1,2})\b = ", text))
    multi = len(re.findall(r"^\s+([a-z]{1,2}) = ", text, flags=re.M)) > len(set(re.findall(r"^\s+([a-z]{1,2}) = ", text, flags=re.M)))
    if multi or "def " in text.split("def op", 1)[0] or case["op"] in G.UPDATE:
        stats.nt(["captured", repr(GR.structure_signature(graph))])
    stats.sample({"kind": "captured", "call": where, "text": text}, cap=3)
    if int_ok != txt_ok:
        return [Violation(f"C04|faithful_exc|{fam}", f"{where}: interpreter {'ok' if int_ok else repr(r_int)} vs text {'ok' if txt_ok else repr(r_txt)}\n{text}")]
    if int_ok:
        if not deep_equal(_plain(r_int), _plain(r_txt)):
            return [Violation(f"C04|faithful_value|{fam}", f"{where}: interpreting the graph and executing the text give different results\n{text}")]
        for i, (x, y) in enumerate(zip(a1, a2)):
            if not deep_equal(x, y):
                return [Violation(f"C04|faithful_inplace|{fam}", f"{where}: in-place effect on argument #{i} differs between graph and text\n{text}")]
        if ok and not deep_equal(_plain(result), _plain(r_txt)):
            return [Violation(f"C04|result_vs_text|{fam}", f"{where}: the call's result differs from executing the returned text")]
    return []


def GR_Graph():
    import einx._src.tracer as tracer

    return tracer.Graph


def _plain(r):
    # the container type is part of the result: a graph whose output is a tuple must not compile to code returning a list
    if isinstance(r, (tuple, list)):
        return type(r)(np.asarray(x) for x in r)
    return np.asarray(r)


# ------------------------------------------------------------------ (B) synthetic graphs


class Toy:
    """Instrumented toy functions; every call is logged with deep-copied arguments."""

    def __init__(self):
        self.log = []

    def rec(self, name, *args, **kw):
        self.log.append((name, repr(args), repr(sorted(kw.items()))))

    def add(self, a, b):
        self.rec("add", a, b)
        return _num(a) + _num(b)

    def neg(self, a):
        self.rec("neg", a)
        return -_num(a)

    def scale(self, a, k=2, *, off=0):
        self.rec("scale", a, k=k, off=off)
        return _num(a) * k + off

    def pair(self, a, b):
        self.rec("pair", a, b)
        return (_num(a), _num(b) + 1)

    def mkdict(self, a, b):
        self.rec("mkdict", a, b)
        return {"x": _num(a), "y": _num(b) * 3}

    def mklist(self, a, b):
        self.rec("mklist", a, b)
        return [_num(a), _num(b), 7]

    def ns(self, a):
        self.rec("ns", a)
        return types.SimpleNamespace(val=_num(a) + 5, other=2)

    def append_(self, lst, v):
        self.rec("append_", list(lst), v)
        lst.append(_num(v))
        return None

    def total(self, lst):
        self.rec("total", list(lst))
        return sum(_num(x) for x in lst)

    def apply(self, f, a):
        self.rec("apply", a)
        return f(a)

    def apply_twice(self, f, a):
        self.rec("apply_twice", a)
        return f(f(a))

    def map_list(self, f, lst):
        self.rec("map_list", list(lst))
        return [f(x) for x in lst]

    def never(self, f, a):
        self.rec("never", a)
        return _num(a)

    def kind(self, x):
        self.rec("kind", type(x).__name__, x)
        return _num(x)

    def make_adder(self, a):
        self.rec("make_adder", a)
        return lambda x: _num(x) + _num(a)


def _num(x):
    if isinstance(x, (list, tuple)):
        return sum(_num(i) for i in x)
    if isinstance(x, dict):
        return sum(_num(v) for v in x.values())
    if isinstance(x, types.SimpleNamespace):
        return x.val
    if isinstance(x, bool):
        return int(x)
    return x


@st.composite
def synth_case(draw):
    n_in = draw(st.integers(1, 3))
    n = draw(st.sampled_from([2, 4, 6, 8, 12, 16, 24, 40, 80, 80]))
    steps = []
    for _ in range(n):
        steps.append(
            {
                "kind": draw(
                    st.sampled_from(
                        ["add", "add", "neg", "scale", "pair", "mkdict", "mklist", "ns", "getitem", "getattr", "op2", "op1", "builtin", "import_math", "import_np", "import_from",
                         "assert", "cast_pair", "cast_list", "cast_list", "scale_kw", "scale_kw", "append", "setitem", "additem", "total", "slice", "inner_apply", "inner_twice", "inner_map", "inner_never", "adder", "literal_tuple", "literal_dict"]
                    )
                ),  # fmt: skip
                "a": draw(st.integers(0, 200)),
                "b": draw(st.integers(0, 200)),
                "c": draw(st.integers(0, 200)),
            }
        )
    n_out = draw(st.integers(1, 3))
    out_kind = draw(st.sampled_from(["single", "tuple", "list", "dict"]))
    if n >= 40 and draw(st.booleans()):
        # many values alive at the end: more variables than single-letter names
        n_out = draw(st.integers(28, 60))
        out_kind = draw(st.sampled_from(["tuple", "list"]))
    outs = [draw(st.integers(0, 200)) for _ in range(n_out)]
    inputs = [draw(st.integers(-5, 9)) for _ in range(n_in)]
    return {"kind": "synthetic", "n_in": n_in, "steps": steps, "outs": outs, "out_kind": out_kind, "inputs": inputs}


def build_synth(case, toy):
    """Build the graph described by the recipe; returns (graph, feature dict)."""
    import einx._src.tracer as tracer

    py = tracer.signature.python
    feats = {"inplace": 0, "nested": 0, "multi_use": 0}
    C = {name: py.constant(getattr(toy, name)) for name in ["add", "neg", "scale", "pair", "mkdict", "mklist", "ns", "append_", "total", "apply", "apply_twice", "map_list", "never", "make_adder", "kind"]}
    ins = [py.Value(None) for _ in range(case["n_in"])]
    # pools by "type"
    nums = list(ins)  # tracers that evaluate to numbers
    tuples, dicts, lists, nss, fns = [], [], [], [], []
    fresh_lists = []  # list nodes never used so far (safe to mutate)
    list_len = {}  # id(list tracer) -> number of elements (casts must name exactly that many values)
    uses = {}

    def use(t):
        uses[id(t)] = uses.get(id(t), 0) + 1
        for fl in list(fresh_lists):
            if fl is t:
                fresh_lists.remove(fl)
        return t

    def pick(pool, k):
        return use(pool[k % len(pool)])

    def build_inner(step, depth=0):
        """An inner graph p -> expression of p and an outer value."""
        p = py.Value(None)
        outer = pick(nums, step["b"])
        mode = step["c"] % 4
        if mode == 0:
            body = py.call(C["add"], [p, outer])
        elif mode == 1:
            body = py.call(C["scale"], [py.call(C["add"], [p, outer])], {"k": 3})
        elif mode == 2:
            body = py.call(C["add"], [p, py.call(C["neg"], [outer])])  # inner node independent of p (hoistable)
        else:
            body = py.operator("+", p, outer)
        feats["nested"] += 1
        return tracer.Graph([p], body, name=None)

    for step in case["steps"]:
        k = step["kind"]
        a, b, c = step["a"], step["b"], step["c"]
        try:
            if k == "add":
                nums.append(py.call(C["add"], [pick(nums, a), pick(nums, b)]))
            elif k == "neg":
                nums.append(py.call(C["neg"], [pick(nums, a)]))
            elif k == "scale":
                kw = {"k": c % 4} if c % 2 else {"off": c % 5, "k": 2}
                nums.append(py.call(C["scale"], [pick(nums, a)], kw))
            elif k == "pair":
                tuples.append(py.call(C["pair"], [pick(nums, a), pick(nums, b)]))
            elif k == "mkdict":
                dicts.append(py.call(C["mkdict"], [pick(nums, a), pick(nums, b)]))
            elif k == "mklist":
                t = py.call(C["mklist"], [pick(nums, a), pick(nums, b)])
                lists.append(t)
                fresh_lists.append(t)
                list_len[id(t)] = 3
            elif k == "ns":
                nss.append(py.call(C["ns"], [pick(nums, a)]))
            elif k == "getitem":
                r = c % 3
                if r == 0 and tuples:
                    nums.append(py.getitem(pick(tuples, a), b % 2))
                elif r == 1 and dicts:
                    nums.append(py.getitem(pick(dicts, a), ["x", "y"][b % 2]))
                elif lists:
                    cand = [l for l in lists if not any(l is f for f in fresh_lists)] or lists
                    nums.append(py.getitem(pick(cand, a), b % 3))
            elif k == "slice" and lists:
                cand = [l for l in lists if not any(l is f for f in fresh_lists)] or lists
                sl = [slice(b % 2, None, None), slice(None, 2, 1), slice(None, None, -1), slice(1, None, 2), slice(None, None, 2), slice(0, 3, 2)][c % 6]
                t = py.getitem(pick(cand, a), sl)
                nums.append(py.call(C["total"], [t]))
            elif k == "getattr" and nss:
                nums.append(py.getattr(pick(nss, a), "val" if b % 2 else "other"))
            elif k == "op2":
                opn = ["+", "*", "-"][c % 3] if False else ["+", "*"][c % 2]
                nums.append(py.operator(opn, pick(nums, a), pick(nums, b)))
            elif k == "op1":
                nums.append(py.operator("-", pick(nums, a)))
            elif k == "builtin":
                nums.append(py.call(py.builtins.abs, [pick(nums, a)]))
            elif k == "import_math":
                m = py.import_("math")
                nums.append(py.call(py.getattr(m, "floor"), [pick(nums, a)]))
            elif k == "import_np":
                m = py.import_("numpy", as_="np")
                nums.append(py.call(py.getattr(m, "abs"), [pick(nums, a)]))
            elif k == "import_from":
                f = py.import_("add", from_="operator")
                nums.append(py.call(f, [pick(nums, a), pick(nums, b)]))
            elif k == "assert":
                x = pick(nums, a)
                nums.append(py.assert_(x, py.operator("==", x, x), "toy assertion"))
            elif k == "cast_pair" and tuples:
                t = pick(tuples, a)
                parts = tracer.cast(t, lambda origin: [py.Value(origin), py.Value(origin)])
                nums.append(parts[b % 2])
                if c % 2:
                    nums.append(parts[(b + 1) % 2])
            elif k == "cast_list" and (lists or tuples):
                # all elements of a list- (tuple-) valued result, re-packed in order into the *other* container type
                from_list = bool(lists) and (not tuples or c % 2 == 0)
                if from_list:
                    cand = [l for l in lists if not any(l is f for f in fresh_lists)] or lists
                    t = pick(cand, a)
                    nel = list_len[id(t)]
                    parts = tracer.cast(t, lambda origin: [py.Value(origin) for _ in range(nel)])
                    packed = tuple(parts) if b % 4 else list(parts)
                else:
                    t = pick(tuples, a)
                    parts = tracer.cast(t, lambda origin: (py.Value(origin), py.Value(origin)))
                    packed = list(parts) if b % 4 else tuple(parts)
                nums.append(py.call(C["kind"], [packed]))
                if b % 3 == 0:
                    nums.append(parts[c % len(parts)])
            elif k == "scale_kw":
                # traced values passed by keyword only
                kw = {"k": pick(nums, b)} if c % 2 else {"off": pick(nums, b), "k": pick(nums, c)}
                nums.append(py.call(C["scale"], [pick(nums, a)], kw))
            elif k in ("append", "setitem", "additem") and fresh_lists:
                l = fresh_lists[a % len(fresh_lists)]
                v = pick(nums, b)
                use(l)
                if k == "append":
                    new = py.call_inplace(l, C["append_"], [l, v])
                elif k == "setitem":
                    new = py.setitem(l, c % 3, v)
                else:
                    new = py.additem(l, c % 3, v)
                list_len[id(new)] = list_len[id(l)] + (1 if k == "append" else 0)
                # the mutated list replaces the original everywhere from now on
                for i, x in enumerate(lists):
                    if x is l:
                        lists[i] = new
                fresh_lists.append(new)
                feats["inplace"] += 1
            elif k == "total" and lists:
                nums.append(py.call(C["total"], [pick(lists, a)]))
            elif k == "inner_apply":
                nums.append(py.call(C["apply"], [build_inner(step), pick(nums, a)]))
            elif k == "inner_twice":
                nums.append(py.call(C["apply_twice"], [build_inner(step), pick(nums, a)]))
            elif k == "inner_map" and lists:
                g = build_inner(step)
                cand = [l for l in lists if not any(l is f for f in fresh_lists)] or lists
                src = pick(cand, a)
                t = py.call(C["map_list"], [g, src])
                lists.append(t)
                list_len[id(t)] = list_len[id(src)]
            elif k == "inner_never":
                nums.append(py.call(C["never"], [build_inner(step), pick(nums, a)]))
            elif k == "adder":
                f = py.call(C["make_adder"], [pick(nums, a)])
                nums.append(py.call(f, [pick(nums, b)]))
            elif k == "literal_tuple":
                t = (pick(nums, a), pick(nums, b), 3)
                nums.append(py.call(C["total"], [t]))
            elif k == "literal_dict":
                d = {"k": pick(nums, a), "m": pick(nums, b)}
                nums.append(py.getitem(py.call(C["mkdict"], [d["k"], d["m"]]), "x"))
        except IndexError:
            continue
    pool = nums + tuples + dicts + lists
    if len(case["outs"]) > 10:
        # wide output: the most recent distinct values
        outs = [use(p) for p in pool[-len(case["outs"]) :]]
    else:
        outs = [use(pool[o % len(pool)]) for o in case["outs"]]
    if case["out_kind"] == "single":
        out = outs[0]
    elif case["out_kind"] == "tuple":
        out = tuple(outs)
    elif case["out_kind"] == "list":
        out = list(outs)
    else:
        out = {f"o{i}": o for i, o in enumerate(outs)}
    feats["multi_use"] = sum(1 for v in uses.values() if v > 1)
    return tracer.Graph(ins, out, name="op"), feats


def evaluate_synth(case, stats):
    import einx._src.tracer as tracer

    toy1 = Toy()
    try:
        graph, feats = build_synth(case, toy1)
    except Exception as e:  # noqa: BLE001
        raise common.HarnessError(f"synthetic graph construction failed: {type(e).__name__}: {e}") from e
    stats.count("synthetic")
    try:
        function, text = tracer.compiler.python.compile(graph, return_code=True)
    except Exception as e:  # noqa: BLE001
        return [Violation(common.exc_bucket(PROP, e, "synthetic_compile"), f"compile failed on a well-formed graph: {type(e).__name__}: {str(e)[:300]} recipe={[s['kind'] for s in case['steps']]}")]
    nstat = text.count("\n")
    reused = False
    assigned = re.findall(r"^\s+([a-z]{1,2}) = ", text, flags=re.M)
    reused = len(assigned) > len(set(assigned))
    if feats["multi_use"] or feats["inplace"] or feats["nested"] or reused:
        stats.nt(["synthetic", repr(GR.structure_signature(graph))])
    for k, v in feats.items():
        if v:
            stats.count("feat:" + k)
    if reused:
        stats.count("feat:name_reuse")
    if any(len(x) == 2 for x in assigned):
        stats.count("feat:two_letter_names")
    stats.sample({"kind": "synthetic", "steps": [s["kind"] for s in case["steps"]][:12], "text": text[:600]}, cap=2)
    where = f"synthetic graph recipe={[s['kind'] for s in case['steps']]} outs={case['outs']}/{case['out_kind']}"
    try:
        tree = ast.parse(text)
    except SyntaxError as e:
        return [Violation("C04|unparsable|synthetic", f"{where}: {e}\n{text}")]
    try:
        ns = exec_text(text, function)
    except Exception as e:  # noqa: BLE001
        return [Violation(f"C04|not_self_contained|synthetic|{type(e).__name__}", f"{where}: exec failed: {type(e).__name__}: {e}\n{text}")]
    if "op" not in ns:
        return [Violation("C04|no_op|synthetic", f"{where}: no op defined\n{text}")]
    if isinstance(function, types.FunctionType) and not code_equal(function.__code__, ns["op"].__code__):
        return [Violation("C04|bytecode_differs|synthetic", f"{where}: returned function differs from the text")]
    ins = list(case["inputs"])
    # run text
    toy1.log.clear()
    try:
        r_txt = ns["op"](*copy.deepcopy(ins))
        txt_ok = True
    except Exception as e:  # noqa: BLE001
        r_txt, txt_ok = e, False
    log_txt = sorted(toy1.log)
    toy1.log.clear()
    try:
        r_int = GR.Interpreter().run(graph, copy.deepcopy(ins))
        int_ok = True
    except Exception as e:  # noqa: BLE001
        r_int, int_ok = e, False
    log_int = sorted(toy1.log)
    if txt_ok != int_ok:
        return [Violation(f"C04|faithful_exc|synthetic|{type(r_txt).__name__ if not txt_ok else type(r_int).__name__}", f"{where}: text {'ok' if txt_ok else repr(r_txt)} vs interpreter {'ok' if int_ok else repr(r_int)}\n{text}")]
    if not txt_ok:
        stats.count("synthetic_both_raise")
        return []
    if not deep_equal(r_txt, r_int):
        return [Violation("C04|faithful_value|synthetic", f"{where}: results differ: text {r_txt!r} vs graph {r_int!r}\n{text}")]
    if log_txt != log_int:
        extra_t = [x for x in log_txt if x not in log_int]
        extra_i = [x for x in log_int if x not in log_txt]
        kind = "count" if len(log_txt) != len(log_int) else "args"
        return [Violation(f"C04|calls_{kind}|synthetic", f"{where}: instrumented calls differ: only in text {extra_t[:3]}, only in graph {extra_i[:3]} ({len(log_txt)} vs {len(log_int)} calls)\n{text}")]
    return []


# ------------------------------------------------------------------ glue


@st.composite
def c04_case(draw, tier="quick", k=0):
    r = draw(st.integers(0, 9))
    if r <= 3:
        return draw(synth_case())
    if r == 4 and draw(st.booleans()):
        c = draw(G.call_case(ops=["vmapop"], quick=True, backends=[None]))
        c["adapter"] = "vmap"
        c["adapter_kwargs"] = draw(st.sampled_from([{}, {"scale": 2.5}, {"scale": 2, "tag": "x"}]))
        return {"kind": "captured", "call": c}
    if r == 4:
        ad = draw(st.sampled_from(["reduce", "elementwise"]))
        c = draw(G.call_case(ops=["sum"] if ad == "reduce" else ["add"], quick=True, backends=[None], min_inputs=2))
        if ad == "elementwise" and len(c["ins"]) != 2:
            ad = "reduce"
            c = draw(G.call_case(ops=["sum"], quick=True, backends=[None]))
        c["adapter"] = ad
        c["adapter_kwargs"] = draw(st.sampled_from([{}, {"scale": 2.5}])) if ad == "reduce" else draw(st.sampled_from([{}, {"bias": 1.5}]))
        return {"kind": "captured", "call": c}
    c = draw(G.stratified_case(k, quick=(tier == "quick"), backends=C04_BACKENDS))
    return {"kind": "captured", "call": c}


def evaluate(case, stats):
    if case["kind"] == "synthetic":
        return evaluate_synth(case, stats)
    return evaluate_captured(case["call"], stats)


def replay_case(case):
    return evaluate(case, common.Stats())


def make_strategy(tier, k):
    return c04_case(tier, k)


def worker(k, n, tier, seed, known_buckets, extra):
    return standard_worker(PROP, make_strategy(tier, k), evaluate, k, n, tier, seed, known_buckets, quick_examples=3500, thorough_examples=120000)


def run(tier, seed, known_buckets):
    return standard_run(PROP, tier, seed, known_buckets)

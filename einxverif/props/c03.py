"""C03 -- ill-formed calls are rejected with documented errors, never computed."""

import copy
import warnings

import numpy as np
from hypothesis import strategies as st

from .. import common, gen as G, expr as X, relations as R
from ..common import Violation
from . import c01, c12
from ._base import standard_run, standard_worker

PROP = "C03"
RULE = (
    "L1: arbitrary text (token sequences, random characters, printed valid descriptions, token-level mutations, deep nesting) "
    "is passed to every public entry point (43 operations, solve/solve_axes/solve_shapes/matches/check, rearrange, both numpy "
    "adapters) with well-typed tensors whose count follows the entry point's arity or the string's own input count; oracle: "
    "the call returns or raises an einx.errors class (or ValueError/TypeError for a count/type problem) - never "
    "AssertionError/NameError/KeyError/IndexError/AttributeError/RecursionError/UnboundLocalError/NotImplementedError/bare "
    "Exception. L2: one edit that is ill-formed by construction (checked with the reference unit propagation) is applied to a "
    "generated valid call: changed/dropped dimension, contradicted or missing size, output axis renamed/dropped/duplicated, "
    "brackets added/removed/permuted, '+' outside id, tensor added/removed, string as tensor, float as size, unbalanced "
    "delimiter, second '->', illegal character; oracle: raises an allowed class (the specific one where the docs name it), "
    "returns no value, and the compiled function never ran (no CallOperationError). Non-trivial: L1 strings that parse; every "
    "L2 case; distinct by (entry point, string / canonical call + edit)."
)
ASSUMPTIONS = [
    "L1 never claims a string is ill-formed; it only polices exception classes (CallOperationError from run-time data problems is accepted there)",
    "L2 edits are kept only when ill-formedness is certain (contradiction derived by substitution, or a fresh/unconstrained axis)",
    "removed-operation stubs (einx.vmap etc.) raise RemovedOperationError by design and are not fuzzed",
]

INTERNAL = (AssertionError, NameError, KeyError, IndexError, AttributeError, RecursionError, UnboundLocalError, NotImplementedError)
EDITS = ["update_axis_dropped", "extra_operand", "dot_third_occurrence", "dim_changed", "dim_dropped", "size_contradicted", "size_missing", "out_renamed", "out_dropped", "brackets_added", "brackets_removed", "brackets_permuted",
         "out_duplicated", "dim_zero", "plus_outside_id", "tensor_removed", "tensor_added", "string_tensor", "float_size", "unbalanced", "second_arrow", "illegal_char"]  # fmt: skip


def entry_points():
    import einx

    eps = {}
    for op in G.ALL_OPS:
        eps[op] = getattr(einx, op)
    for name in ("solve", "solve_axes", "solve_shapes", "matches", "check", "rearrange"):
        eps[name] = getattr(einx, name)
    eps["adapt_reduce"] = einx.numpy.adapt_numpylike_reduce(_my_reduce)
    eps["adapt_elementwise"] = einx.numpy.adapt_numpylike_elementwise(_my_elementwise)
    return eps


def _my_reduce(x, axis):
    return np.sum(x * x, axis=axis)


def _my_elementwise(x, y):
    return x + 2 * y


_EPS = {}


def get_eps():
    if not _EPS:
        _EPS.update(entry_points())
    return _EPS


FIXED_ARITY = {op: 1 for op in G.REDUCE + G.PRESERVE + G.ARGFIND}
FIXED_ARITY["where"] = 3
FIXED_ARITY["adapt_reduce"] = 1


@st.composite
def c03_case(draw, tier="quick"):
    layer = draw(st.sampled_from(["L1", "L1", "L2", "L2", "L2", "L2", "many"]))
    if layer == "many":
        n = draw(st.integers(27, 60))
        ep = draw(st.sampled_from(["add", "multiply", "id", "maximum", "dot"]))
        axes = draw(st.lists(st.sampled_from(["a", "b", "c"]), min_size=0, max_size=2, unique=True))
        return {"layer": "many", "entry": ep, "n": n, "axes": axes}
    if layer == "L1":
        t = draw(c12.text_case())
        ep = draw(st.sampled_from(sorted(get_eps().keys())))
        if t.get("origin_op") and draw(st.integers(0, 9)) < 7:
            ep = t["origin_op"]  # the operation the (mutated) description was generated for
        return {"layer": "L1", "string": t["string"], "entry": ep, "seed": draw(st.integers(0, 10**6)), "nsizes": draw(st.integers(0, 2))}
    flags = {"force_fam": True} if draw(st.integers(0, 3)) == 0 else None  # more ellipses among the valid calls
    base = draw(G.call_case(quick=(tier == "quick"), backends=[None, "numpy", "numpy.numpylike"], flags=flags))
    return {"layer": "L2", "base": base, "edit": draw(st.sampled_from(EDITS)), "rnd": [draw(st.integers(0, 10**6)) for _ in range(3)]}


# ------------------------------------------------------------------ L1


def run_l1(case, stats):
    import einx
    from einx._src.namedtensor.stage1 import parse_op

    s, ep = case["string"], case["entry"]
    fn = get_eps()[ep]
    rng = np.random.default_rng(case["seed"])
    n_in = None
    names = []
    parsed = False
    try:
        tree = parse_op(s)
        parsed = True
        ins = tree.children[0].children
        n_in = len(ins)
        ranks = [e.ndim for e in ins]
        from einx._src.namedtensor import stage1

        names = sorted({e.name for e in tree.nodes() if isinstance(e, stage1.Axis) and e.value is None and not e.name.startswith(".")})
    except Exception:  # noqa: BLE001
        ranks = []
    if ep in FIXED_ARITY:
        n = FIXED_ARITY[ep]
    elif n_in is not None:
        n = n_in
    else:
        n = int(rng.integers(1, 3))
    tensors = []
    if case.get("shapes") is not None:  # explicit shapes (replay files of fixed findings)
        n = 0
        for i, shape in enumerate(case["shapes"]):
            if ep in ("get_at", "set_at", "add_at", "subtract_at") and i >= 1 and not (ep != "get_at" and i == len(case["shapes"]) - 1):
                tensors.append(np.zeros(tuple(shape), dtype=np.int64))
            else:
                tensors.append(np.ones(tuple(shape)))
    for i in range(n):
        nd = ranks[i] if i < len(ranks) and ranks[i] is not None else int(rng.integers(0, 4))
        nd = min(nd, 6)
        shape = tuple(int(x) for x in rng.integers(1, 4, size=nd))
        if ep in ("get_at", "set_at", "add_at", "subtract_at") and i >= 1:
            tensors.append(np.zeros(shape, dtype=np.int64))
        else:
            tensors.append(np.ones(shape))
    kw = {}
    reserved = {"backend", "graph", "keepdims", "shift", "mask", "x", "y", "tensor", "tensors", "description", "axis"}
    cand = [nm for nm in names if nm not in reserved]
    for nm in cand[: case["nsizes"]]:
        kw[nm] = int(rng.integers(1, 4))
    if ep == "roll":
        kw["shift"] = 1
    stats.count("L1:entry:" + ("op" if ep in G.ALL_OPS else ep))
    if parsed:
        stats.nt(["L1", ep, s])
    stats.sample({"layer": "L1", "entry": ep, "string": s, "shapes": [list(t.shape) for t in tensors], "sizes": kw}, cap=4)
    try:
        with warnings.catch_warnings():
            warnings.simplefilter("ignore")
            fn(s, *tensors, **kw)
        stats.count("L1:returned")
        return []
    except einx.errors.EinxError as e:
        stats.count("L1:raised:" + type(e).__name__)
        return []
    except INTERNAL as e:
        return [Violation(common.exc_bucket(PROP, e, "L1"), f"{ep}({s!r}, shapes={[t.shape for t in tensors]}, sizes={kw}) raised internal {type(e).__name__}: {str(e)[:200]}")]
    except (ValueError, TypeError) as e:
        stats.count("L1:raised:" + type(e).__name__)
        msg = str(e)
        count_or_type = (
            "input expression" in msg and "input tensor" in msg
            or "received incorrect arguments" in msg
            or "constraints must" in msg
            or "must be a string" in msg
            or "has an invalid type" in msg
            or "not a valid tensor argument" in msg
        )
        if count_or_type:
            return []
        return [Violation(common.exc_bucket(PROP, e, "L1:valueerror"), f"{ep}({s!r}, shapes={[t.shape for t in tensors]}, sizes={kw}) raised {type(e).__name__} although argument counts and types are right: {msg[:250]}")]
    except Exception as e:  # noqa: BLE001
        if type(e) is Exception:
            return [Violation(common.exc_bucket(PROP, e, "L1:bare"), f"{ep}({s!r}) raised a bare Exception: {str(e)[:200]}")]
        stats.count("L1:raised:" + type(e).__name__)
        return []


# ------------------------------------------------------------------ L2


def _leaves(e, bracketed=None):
    return [l for l, b in X.walk_leaves(X.expand(e)) if bracketed is None or b == bracketed]


def _certainly_inconsistent(case, arrays_shapes, sizes):
    """True if unit propagation derives a contradiction from shapes + keyword sizes."""
    env_known = {}
    for k, v in sizes.items():
        if isinstance(v, (list, tuple)):
            for i, x in enumerate(v):
                env_known[f"{k}.{i}"] = int(x)
        elif any(m.startswith(k + ".") for m in case["env"]):
            for m in case["env"]:
                if m.startswith(k + "."):
                    env_known[m] = int(v)
        else:
            env_known[k] = int(v)
    eqs = []
    try:
        for e, shp in zip(case["ins"], arrays_shapes):
            ex = X.expand(e)
            tops = list(X._flat_children(ex))
            if len(tops) != len(shp):
                return False
            eqs.extend(zip(tops, [int(d) for d in shp]))
        X.propagate(eqs, env_known)
    except X.Inconsistent:
        return True
    return False


def derive_l2(rc, arrays):
    """-> None or dict(desc, args, kwargs, allowed=(classes...), op)"""
    import einx

    E = einx.errors
    base, edit, rnd = rc["base"], rc["edit"], rc["rnd"]
    op = base["op"]
    fam = G.family_of(op)
    env = base["env"]
    ANY = (E.SyntaxError, E.RankError, E.AxisSizeError, E.SemanticError, E.OperationNotSupportedError, E.BackendResolutionError)
    desc = base["desc"]
    args = [np.array(a, copy=True) for a in arrays]
    sizes = copy.deepcopy(base["sizes"])
    shapes = [a.shape for a in args]
    ins, outs = copy.deepcopy(base["ins"]), copy.deepcopy(base["outs"])

    def res(allowed=ANY, **kw):
        d = {"desc": desc, "args": args, "sizes": sizes, "allowed": allowed, "op": op}
        d.update(kw)
        return d

    if edit == "update_axis_dropped":
        if fam != "update":
            return None
        tnames = [l[1] for l in _leaves(ins[0], False) if l[0] == "ax" and env[l[1]] > 1 and "." not in l[1]]
        onames = [l[1] for l in _leaves(outs[0], False) if l[0] == "ax"]
        cands = [n for n in tnames if n in onames]
        if not cands:
            return None
        tgt = cands[rnd[0] % len(cands)]

        def drop(items):
            out = []
            for it in items:
                if it[0] == "ax" and it[1] == tgt:
                    continue
                if it[0] in ("flat", "br"):
                    out.append([it[0], drop(it[1])])
                else:
                    out.append(it)
            return out

        outs[0] = drop(outs[0])
        desc = X.p_desc(ins, outs)
        return res((E.SemanticError,), desc=desc)
    if edit == "dim_zero":
        # an axis of length zero: einx documents positive axis lengths; either a documented error or (should empty axes ever be
        # supported) a result of exactly the shapes the output expressions denote -- never an internal error or another shape
        names = [n for n in X.all_axis_names([X.expand(e) for e in ins + outs]) if env.get(n, 1) > 1 and n not in set(base.get("protected") or [])]
        if fam in ("get_at", "update", "argfind") or not names:
            return None
        n0 = names[rnd[0] % len(names)]
        env2 = dict(env)
        env2[n0] = 0
        try:
            new_shapes = [tuple(X.shape_of(X.expand(e), env2)) for e in ins]
            out_shapes = [tuple(X.shape_of(X.expand(e), env2)) for e in outs]
        except Exception:  # noqa: BLE001
            return None
        args = [np.zeros(shp, dtype=a.dtype) for shp, a in zip(new_shapes, args)]
        if n0 in sizes:
            sizes[n0] = 0
        base_f = n0.split(".")[0]
        if "." in n0 and isinstance(sizes.get(base_f), list):
            sizes[base_f][int(n0.split(".")[1])] = 0
        elif "." in n0 and base_f in sizes:
            return None
        return res(ANY, ok_shapes=out_shapes)
    if edit == "dot_third_occurrence":
        if op != "dot":
            return None
        con = list(dict.fromkeys(l[1] for e in ins for l in _leaves(e, True) if l[0] == "ax" and "." not in l[1]))
        if not con:
            return None
        b = con[rnd[0] % len(con)]
        ins.append([["br", [["ax", b]]]])
        args.append(np.ones((env[b],)))
        desc = X.p_desc(ins, outs)
        return res(ANY, desc=desc)
    if edit == "extra_operand":
        if op not in G.ELEMENTWISE_BIN:
            return None
        ins.append(copy.deepcopy(ins[rnd[0] % len(ins)]))
        args.append(np.array(args[rnd[0] % len(args)], copy=True))
        desc = X.p_desc(ins, outs)
        return res((E.SemanticError, ValueError, TypeError), desc=desc)
    if edit == "dim_changed":
        cands = [(i, d) for i, a in enumerate(args) for d in range(a.ndim)]
        if not cands:
            return None
        i, d = cands[rnd[0] % len(cands)]
        shp = list(args[i].shape)
        shp[d] += 1 + rnd[1] % 2
        new_shapes = list(shapes)
        new_shapes[i] = tuple(shp)
        if not _certainly_inconsistent(base, new_shapes, sizes):
            return None
        args[i] = np.zeros(shp, dtype=args[i].dtype)
        return res((E.AxisSizeError, E.RankError, E.SemanticError))
    if edit == "dim_dropped":
        cands = [i for i, (a, e) in enumerate(zip(args, ins)) if a.ndim >= 1 and not any(it[0] == "ell" for it in R._nodes(e))]
        if not cands:
            return None
        i = cands[rnd[0] % len(cands)]
        mode = rnd[1] % 2
        if mode == 0:
            args[i] = np.zeros(args[i].shape[:-1], dtype=args[i].dtype)
        else:
            args[i] = np.zeros(args[i].shape + (2,), dtype=args[i].dtype)
        return res((E.RankError,))
    if edit == "size_contradicted":
        cands = [k for k, v in sizes.items() if not isinstance(v, list)]
        if not cands:
            return None
        k = cands[rnd[0] % len(cands)]
        s2 = dict(sizes)
        s2[k] = sizes[k] + 1
        if not _certainly_inconsistent(base, shapes, s2):
            return None
        sizes = s2
        return res((E.AxisSizeError, E.RankError, E.SemanticError), sizes=s2)
    if edit == "size_missing":
        in_names = {l[1] for e in ins for l in _leaves(e) if l[0] == "ax"}
        # axes einx determines through structural equations (argmax/argmin output axis) are not "missing"
        structural = {l[1] for e in outs for l in _leaves(e, True) if l[0] == "ax"} if fam == "argfind" else set()
        cands = [k for k, v in sizes.items() if k not in in_names and k not in structural and not any(n.startswith(k + ".") for n in in_names) and not isinstance(v, list)]
        if not cands:
            return None
        k = cands[rnd[0] % len(cands)]
        s2 = {kk: v for kk, v in sizes.items() if kk != k}
        return res((E.AxisSizeError, E.RankError), sizes=s2)
    out_un = [l for l in _leaves(outs[0], False) if l[0] == "ax" and "." not in l[1]] if outs else []
    if edit == "out_renamed":
        if not out_un:
            return None
        tgt = out_un[rnd[0] % len(out_un)][1]
        fresh = "qq_fresh"

        def f(name):
            return fresh if name == tgt else name

        outs[0] = R.map_names(outs[0], f)
        desc = X.p_desc(ins, outs)
        s2 = {k: v for k, v in sizes.items() if k != tgt}
        return res((E.AxisSizeError, E.SemanticError, E.RankError), desc=desc, sizes=s2)
    if edit == "out_dropped":
        if fam in ("update",):
            return None
        if fam in ("reduce", "dot") and not any(X.has_node(e, "br") for e in ins):
            return None
        in_names = {l[1] for e in ins for l in _leaves(e, False) if l[0] == "ax"}
        cands = [l[1] for l in out_un if env[l[1]] > 1 and l[1] in in_names]
        if not cands or len(outs) != 1:
            return None
        tgt = cands[rnd[0] % len(cands)]

        def drop(items):
            out = []
            for it in items:
                if it[0] == "ax" and it[1] == tgt:
                    continue
                if it[0] in ("flat", "br", "cat"):
                    inner = drop(it[1])
                    if inner is None or (it[0] == "cat" and len(inner) != len(it[1])):
                        return None
                    out.append([it[0], inner])
                elif it[0] == "ell":
                    return None
                else:
                    out.append(it)
            return out

        new = drop(outs[0])
        if new is None:
            return None
        outs[0] = new
        desc = X.p_desc(ins, outs)
        return res((E.SemanticError,), desc=desc)
    if edit == "brackets_added":
        # brackets where the operation has no use for them: around an item of an input of id / scalar operations, or around an
        # item of the output of id / scalar operations / reductions / dot; the item may be or contain an ellipsis
        if fam not in ("id", "elementwise", "reduce", "dot"):
            return None

        def has_br(it):
            return R.contains_br(it)

        cands = []
        if fam in ("id", "elementwise"):
            cands += [("in", i, j) for i, e in enumerate(ins) for j, it in enumerate(e) if it[0] in ("ax", "flat", "ell") and not (it[0] == "flat" and not it[1]) and not has_br(it)]
        cands += [("out", i, j) for i, e in enumerate(outs) for j, it in enumerate(e) if it[0] in ("ax", "flat", "ell") and not (it[0] == "flat" and not it[1]) and not has_br(it)]
        ell_cands = [c for c in cands if (ins if c[0] == "in" else outs)[c[1]][c[2]][0] == "ell"]
        if ell_cands and rnd[1] % 2 == 0:
            cands = ell_cands
        if not cands:
            return None
        def names_of(it):
            return {l[1] for l, _ in X.walk_leaves(X.expand([it])) if l[0] == "ax"}

        def wrap_item(it):
            if it[0] == "ell" and rnd[2] % 2 == 0 and not (len(it) > 4 and it[4]):
                # "[b]..." : the bracket inside the ellipsis
                return ["ell", [["br", it[1]]], it[2], [["br", [x]] for x in it[3]], False]
            return ["br", [it]]

        # bracket every occurrence of the chosen item's axes (consistent bracket usage, so that the description passes the
        # syntactic checks and the question is only whether brackets are allowed there); candidates whose axes also occur
        # mixed with other axes inside one item are tried later in the cyclic order
        for shift in range(len(cands)):
            side, i, j = cands[(rnd[0] + shift) % len(cands)]
            names = names_of((ins if side == "in" else outs)[i][j])
            ins2, outs2 = copy.deepcopy(ins), copy.deepcopy(outs)
            ok = True
            for e in ins2 + outs2:
                for jj, it2 in enumerate(e):
                    n2 = names_of(it2)
                    if n2 & names:
                        if not n2 <= names or R.contains_br(it2) or it2[0] == "cat":
                            ok = False
                        else:
                            e[jj] = wrap_item(it2)
            if not names:
                ins2, outs2 = copy.deepcopy(ins), copy.deepcopy(outs)
                (ins2 if side == "in" else outs2)[i][j] = wrap_item((ins2 if side == "in" else outs2)[i][j])
                ok = True
            if ok:
                ins, outs = ins2, outs2
                break
        else:
            return None
        desc = X.p_desc(ins, outs)
        return res(ANY, desc=desc)
    if edit == "brackets_removed":
        if fam not in ("preserve", "argfind", "get_at", "update") or not X.has_node(ins[0], "br"):
            return None
        from .c07 import _strip_br

        ins[0] = _strip_br(ins[0])
        desc = X.p_desc(ins, outs)
        return res(ANY, desc=desc)
    if edit == "brackets_permuted":
        if fam not in ("preserve", "update"):
            return None
        names = list(dict.fromkeys(l[1] for l in _leaves(outs[0], True) if l[0] == "ax" and "." not in l[1]))
        if len(names) < 2:
            return None
        a, b = names[0], names[1]

        def f(name):
            return b if name == a else (a if name == b else name)

        outs[0] = R.map_names(outs[0], f)
        if env[a] != env[b]:
            pass
        desc = X.p_desc(ins, outs)
        if desc == base["desc"]:
            return None
        return res(ANY, desc=desc)
    if edit == "out_duplicated":
        if not out_un:
            return None
        tgt = out_un[rnd[0] % len(out_un)]
        outs[0] = outs[0] + [["ax", tgt[1]]]
        desc = X.p_desc(ins, outs)
        return res((E.SemanticError,), desc=desc)
    if edit == "plus_outside_id":
        if fam == "id":
            return None
        cands = [(i, j) for i, e in enumerate(ins) for j, it in enumerate(e) if it[0] == "ax"]
        if not cands:
            return None
        i, j = cands[rnd[0] % len(cands)]
        ins[i][j] = ["cat", [ins[i][j], ["ax", "qq_fresh"]]]
        desc = X.p_desc(ins, outs)
        return res((E.SemanticError,), desc=desc)
    if edit == "tensor_removed":
        if not args:
            return None
        args = args[:-1]
        return res((ValueError, TypeError))
    if edit == "tensor_added":
        args = args + [np.ones(())]
        return res((ValueError, TypeError))
    if edit == "string_tensor":
        if not args:
            return None
        i = rnd[0] % len(args)
        args[i] = "not a tensor"
        return res((ValueError, TypeError, E.BackendResolutionError))
    if edit == "float_size":
        cands = [k for k, v in sizes.items() if not isinstance(v, list)]
        if not cands:
            return None
        k = cands[rnd[0] % len(cands)]
        sizes[k] = float(sizes[k]) + 0.5
        return res((ValueError, TypeError))
    if edit == "unbalanced":
        toks = c12.lex(desc)
        idx = [i for i, t in enumerate(toks) if t in "()[]"]
        if not idx:
            desc = desc + [")", "]", "(", "["][rnd[1] % 4]
        else:
            toks.pop(idx[rnd[0] % len(idx)])
            desc = "".join(toks)
        return res((E.SyntaxError,), desc=desc)
    if edit == "second_arrow":
        desc = desc + " -> " + X.p_items(outs[0] if outs else [])
        return res((E.SyntaxError,), desc=desc)
    if edit == "illegal_char":
        ch = ["$", "%", "a-b", "!", "{", "~", ";", "a.b", "#"][rnd[0] % 9]
        pos = rnd[1] % (len(desc) + 1)
        desc = desc[:pos] + " " + ch + " " + desc[pos:]
        return res((E.SyntaxError,), desc=desc)
    return None


def run_l2(rc, stats):
    import einx

    base = rc["base"]
    arrays = G.build_arrays(base)
    d = derive_l2(rc, arrays)
    if d is None:
        stats.count("L2:skip:" + rc["edit"])
        return []
    stats.count("L2:edit:" + rc["edit"])
    stats.nt(["L2", rc["edit"], G.canon_key(base)])
    op = d["op"]
    kw = dict(d["sizes"])
    kw.update(base.get("opts") or {})
    if base.get("backend") is not None:
        kw["backend"] = base["backend"]
    stats.sample({"layer": "L2", "edit": rc["edit"], "op": op, "valid": base["desc"], "ill_formed": d["desc"], "shapes": [list(np.shape(a)) if not isinstance(a, str) else "str" for a in d["args"]], "sizes": {k: repr(v) for k, v in d["sizes"].items()}}, cap=10)
    where = f"[{rc['edit']}] {op}({d['desc']!r}, shapes={[np.shape(a) if not isinstance(a, str) else 'str' for a in d['args']]}, sizes={d['sizes']}, backend={base.get('backend')}) (valid call was {base['desc']!r} sizes={base['sizes']})"
    try:
        with warnings.catch_warnings():
            warnings.simplefilter("ignore")
            r = getattr(einx, op)(d["desc"], *d["args"], **kw)
        if d.get("ok_shapes") is not None and [tuple(np.shape(x)) for x in (r if isinstance(r, tuple) else (r,))] == d["ok_shapes"]:
            stats.count("L2:dim_zero_supported")
            return []
        return [Violation(f"C03|computed|{rc['edit']}|{G.family_of(op)}", f"{where}: ill-formed call returned a value of shape {[np.shape(x) for x in (r if isinstance(r, tuple) else (r,))]}")]
    except einx.errors.CallOperationError as e:
        return [Violation(f"C03|ran_backend|{rc['edit']}|{G.family_of(op)}", f"{where}: the compiled function was executed (CallOperationError): {str(e)[-200:]}")]
    except d["allowed"] as e:
        stats.count("L2:rejected:" + type(e).__name__)
        return []
    except einx.errors.OperationNotSupportedError:
        stats.count("L2:rejected:OperationNotSupportedError")
        return []
    except Exception as e:  # noqa: BLE001
        return [Violation(common.exc_bucket(PROP, e, "L2:" + rc["edit"]), f"{where}: raised {type(e).__name__} (allowed: {[c.__name__ for c in d['allowed']]}): {str(e)[:250]}")]


def run_many(case, stats):
    """Many-input calls (more variable names than single letters): never a bare Exception / internal error."""
    import einx

    n, ep, axes = case["n"], case["entry"], case["axes"]
    item = " ".join(axes)
    if ep == "id":
        desc = ", ".join([item] * n) + " -> " + ", ".join([item] * n)
    else:
        desc = ", ".join([item] * n) + " -> " + item
    shape = tuple(2 for _ in axes)
    tensors = [np.ones(shape) for _ in range(n)]
    stats.count("many:" + ep)
    stats.nt(["many", ep, n, axes])
    stats.sample({"layer": "many", "entry": ep, "n_inputs": n, "item": item}, cap=2)
    try:
        with warnings.catch_warnings():
            warnings.simplefilter("ignore")
            getattr(einx, ep)(desc, *tensors)
        return []
    except einx.errors.EinxError:
        return []
    except INTERNAL as e:
        return [Violation(common.exc_bucket(PROP, e, "many"), f"{ep} with {n} inputs '{item}' raised internal {type(e).__name__}: {str(e)[:150]}")]
    except (ValueError, TypeError):
        return []
    except Exception as e:  # noqa: BLE001
        if type(e) is Exception:
            return [Violation(common.exc_bucket(PROP, e, "many:bare"), f"{ep} with {n} inputs '{item}' raised a bare Exception: {str(e)[:120]} ... {str(e)[-200:]}")]
        return []


def evaluate(case, stats):
    if case["layer"] == "many":
        return run_many(case, stats)
    if case["layer"] == "L1":
        return run_l1(case, stats)
    return run_l2(case, stats)


def replay_case(case):
    return evaluate(case, common.Stats())


def make_strategy(tier, k):
    return c03_case(tier)


def worker(k, n, tier, seed, known_buckets, extra):
    return standard_worker(PROP, make_strategy(tier, k), evaluate, k, n, tier, seed, known_buckets, quick_examples=8000, thorough_examples=400000)


def run(tier, seed, known_buckets):
    return standard_run(PROP, tier, seed, known_buckets)

"""C07 -- documented shorthand forms mean exactly their documented expansions."""

import copy
import warnings

import numpy as np
from hypothesis import strategies as st

from .. import common, gen as G, loopsem as L, expr as X, relations as R, loopvmap as LV
from ..common import Violation
from . import c01
from ._base import standard_run, standard_worker

PROP = "C07"
RULE = (
    "For each documented shorthand a (long form, short form) pair is derived from a generated call and both are executed on "
    "identical data: omitted output (per-family default; ambiguous scalar-op cases must raise SemanticError); un-bracketed "
    "reduction/dot; number vs fresh keyworded axis; anonymous '...' vs one shared named ellipsis; ellipsis vs written-out "
    "repetition; scalar vs repeated tuple for ellipsis sizes; nested '->' and ',' vs top-level distribution; adjacent brackets "
    "vs one bracket; keepdims=True vs parenthesised single-dimension brackets; length-1 coordinate bracket vs none in "
    "get_at/argmax/argmin; redundant spaces; einx.rearrange vs einx.id. Oracle: equal shapes and values (ints exact, floats "
    "rtol 1e-9) or the same exception class. Non-trivial: the two strings differ after whitespace normalisation (or the "
    "keyword/arguments differ) and the call has >=2 axes longer than 1; distinct by (shorthand, canonical call)."
)
ASSUMPTIONS = c01.ASSUMPTIONS + [
    "einx is compared with itself on both forms (metamorphic); C01 decides the meaning of the long forms",
    "keepdims shorthand only for bracket groups enclosing a single dimension (for '[a b]' the wrapped form denotes another input rank)",
]

SHORTHANDS = ["implicit", "implicit_ambiguous", "unbracketed", "number", "anon_ellipsis", "expand_ellipsis", "scalar_size", "nested", "adjacent_brackets", "keepdims", "coord1", "argfind1", "spaces", "rearrange"]


# ------------------------------------------------------------------ strategy


@st.composite
def c07_case(draw, tier="quick"):
    sh = draw(st.sampled_from(SHORTHANDS))
    rnd = [draw(st.integers(0, 10**6)) for _ in range(4)]
    quick = tier == "quick"
    B = [None, "numpy", "numpy.numpylike", "numpy.einsum", LV.NAME]
    if sh == "implicit":
        ops = ["id"] + G.ELEMENTWISE_BIN + G.ELEMENTWISE_NARY + ["where"] + G.REDUCE + G.PRESERVE + G.ARGFIND + G.UPDATE
        fam = draw(st.sampled_from(["id", "elementwise", "elementwise", "reduce", "preserve", "argfind", "update"]))
        base = draw(G.call_case(ops=G.FAMILY_OPS[fam], quick=quick, implicit=True, backends=B))
    elif sh == "implicit_ambiguous":
        base = draw(G.call_case(ops=G.FAMILY_OPS["elementwise"], quick=quick, implicit=True, min_inputs=2, backends=B))
    elif sh == "unbracketed":
        base = draw(G.call_case(ops=G.REDUCE + ["dot"], quick=quick, flags={"no_diag": True, "no_squeeze": True, "no_extras": True}, backends=B))
    elif sh == "keepdims":
        base = draw(G.call_case(ops=G.REDUCE, quick=quick, implicit=True, backends=B))
    elif sh == "coord1":
        base = draw(G.call_case(ops=["get_at"] + G.UPDATE, quick=quick, backends=B, flags={"coord1": True}))
    elif sh == "argfind1":
        base = draw(G.call_case(ops=G.ARGFIND, quick=quick, backends=B, flags={"k1": True}))
    elif sh == "rearrange":
        base = draw(G.call_case(ops=["id"], quick=quick, backends=B))
    elif sh == "nested":
        base = draw(nested_base(quick))
    elif sh == "anon_ellipsis":
        base = draw(G.call_case(quick=quick, backends=B, flags={"force_fam": True}))
    elif sh == "scalar_size":
        base = draw(G.call_case(quick=quick, backends=B, flags={"force_fam": True, "fam_equal": True, "fam_sizes": True}))
    elif sh == "expand_ellipsis":
        base = draw(G.call_case(quick=quick, backends=B, flags={"force_fam": draw(st.booleans())}))
    elif sh == "adjacent_brackets":
        base = draw(G.call_case(ops=G.REDUCE + G.PRESERVE + G.ARGFIND + G.UPDATE + ["get_at", "dot"], quick=quick, backends=B, flags={"br_adjacent": draw(st.booleans())}))
    else:
        base = draw(G.call_case(quick=quick, backends=B))
    return {"sh": sh, "base": base, "rnd": rnd}


@st.composite
def nested_base(draw, quick=True):
    """Calls whose tensors share a top-level prefix P and suffix S around one bracket / parenthesis."""
    ctx = G.Ctx(draw, quick)
    kind = draw(st.sampled_from(["reduce", "preserve", "elementwise", "argfind"]))
    P = [ctx.new_axis() for _ in range(draw(st.integers(0, 2)))]
    S = [ctx.new_axis() for _ in range(draw(st.integers(0, 2)))]
    if kind == "reduce":
        op = draw(st.sampled_from(G.REDUCE))
        m = [ctx.new_axis() for _ in range(draw(st.integers(1, 2)))]
        ins = [P + [["br", m]] + S]
        outs = [P + S]
        mids = ([["br", m]], [[]])
        wrapper = "br"
    elif kind == "preserve":
        op = draw(st.sampled_from(["flip", "softmax", "log_softmax", "sort"]))
        m = [ctx.new_axis()]
        ins = [P + [["br", m]] + S]
        outs = [P + [["br", m]] + S]
        wrapper = "br"
    elif kind == "argfind":
        op = draw(st.sampled_from(G.ARGFIND))
        m = [ctx.new_axis() for _ in range(draw(st.integers(1, 2)))]
        ins = [P + [["br", m]] + S]
        outs = [P + [["br", [ctx.new_num(len(m))]]] + S]
        wrapper = "br"
    else:
        op = draw(st.sampled_from(["add", "multiply", "subtract", "maximum"]))
        a, b = ctx.new_axis(), ctx.new_axis()
        ins = [P + [["flat", [a, b]]] + S, P + [["flat", [b]]] + S]
        outs = [P + [["flat", [b, a]]] + S]
        wrapper = "flat"
    env = ctx.env
    sizes, smeta = G.compute_sizes(ctx, ins, outs)
    kinds = G.data_kinds_for(op, len(ins))
    data = [{"kind": draw(st.sampled_from(kinds[min(i, len(kinds) - 1)])), "seed": draw(st.integers(0, 2**16))} for i in range(len(ins))]
    return {"op": op, "ins": ins, "outs": outs, "env": dict(env), "desc": X.p_desc(ins, outs), "sizes": sizes, "opts": {}, "backend": draw(st.sampled_from([None, "numpy", "numpy.numpylike"])), "data": data, "meta": smeta, "nested": {"nP": len(P), "nS": len(S), "wrapper": wrapper}}


# ------------------------------------------------------------------ helpers


def _spec(case, desc=None, arrays=None, sizes=None, opts=None, fn=None):
    return {"op": fn or case["op"], "desc": case["desc"] if desc is None else desc, "arrays": arrays, "sizes": dict(case["sizes"]) if sizes is None else sizes, "opts": dict(case.get("opts") or {}) if opts is None else opts, "backend": case.get("backend")}


def _run(spec):
    import einx

    kw = dict(spec["sizes"])
    kw.update(spec["opts"])
    if spec["backend"] is not None:
        kw["backend"] = spec["backend"]
    fn = getattr(einx, spec["op"])
    LV.ensure(spec["backend"])
    with warnings.catch_warnings():
        warnings.simplefilter("ignore")
        try:
            r = fn(spec["desc"], *[np.array(a, copy=True) for a in spec["arrays"]], **kw)
            return ("ok", r if isinstance(r, tuple) else (r,))
        except Exception as e:  # noqa: BLE001
            return ("exc", e)


def _strip_br(items):
    out = []
    for it in items:
        t = it[0]
        if t == "br":
            out.extend(_strip_br(it[1]))
        elif t in ("flat", "cat"):
            out.append([t, _strip_br(it[1])])
        elif t == "ell":
            out.append(["ell", _strip_br(it[1]), it[2], _strip_br(it[3]), it[4] if len(it) > 4 else False])
        else:
            out.append(it)
    return out


def _map_items(items, f):
    """Bottom-up map over nodes; f(node) -> list of replacement nodes."""
    out = []
    for it in items:
        t = it[0]
        if t in ("flat", "cat", "br"):
            it = [t, _map_items(it[1], f)]
        elif t == "ell":
            it = ["ell", _map_items(it[1], f), it[2], _map_items(it[3], f), it[4] if len(it) > 4 else False]
        out.extend(f(it))
    return out


def _space_out(desc, rnd):
    """Insert redundant spaces only where they are redundant (see DESIGN C12 guards)."""
    rng = np.random.default_rng(rnd)
    toks = []
    i = 0
    lits = ["...", "->", ",", "+", "(", ")", "[", "]", " "]
    while i < len(desc):
        for l in lits:
            if desc.startswith(l, i):
                toks.append(l)
                i += len(l)
                break
        else:
            j = i
            while j < len(desc) and not any(desc.startswith(l, j) for l in lits):
                j += 1
            toks.append(desc[i:j])
            i = j
    out = []
    for k in range(len(toks) + 1):
        p = toks[k - 1] if k > 0 else None
        n = toks[k] if k < len(toks) else None
        ok = n != "..." and (p is None or n is None or p == " " or n == " " or p in ("->", ",", "+", "(", "[") or n in ("->", ",", "+", ")", "]"))
        if ok and rng.random() < 0.4:
            out.append(" " * int(rng.integers(1, 3)))
        if n is not None:
            out.append(n)
    return "".join(out)


def derive(rc, arrays):
    """-> None or dict(long=spec, short=spec, expect='equal'|'short_raises_SemanticError', post=fn)"""
    sh, base, rnd = rc["sh"], rc["base"], rc["rnd"]
    env = base["env"]
    if sh in ("implicit", "implicit_ambiguous"):
        ok = base.get("implicit_ok")
        short = X.p_desc(base["ins"])
        if sh == "implicit":
            if not ok:
                return None
            return {"long": _spec(base, arrays=arrays), "short": _spec(base, desc=short, arrays=arrays), "expect": "equal"}
        if ok or len(base["ins"]) < 2:
            return None
        # documented: no unique superset input -> the short form raises
        return {"long": None, "short": _spec(base, desc=short, arrays=arrays), "expect": "short_raises_SemanticError"}
    if sh == "unbracketed":
        out_names = {X.leaf_key(l) for l, b in X.walk_leaves(X.expand(base["outs"][0]))}
        if not any(X.has_node(e, "br") for e in base["ins"]):
            return None
        for e in base["ins"]:
            seen = set()
            for l, b in X.walk_leaves(X.expand(e)):
                k = X.leaf_key(l)
                if k in seen:
                    return None
                seen.add(k)
                if b and k in out_names:
                    return None
                if not b and k not in out_names:
                    return None
        ins2 = [_strip_br(e) for e in base["ins"]]
        if any(it[0] == "ell" and len(it[1]) != 1 for e in ins2 for it in R._nodes(e)):
            return None  # "[a b]..." has no bracket-free spelling: an ellipsis applies to one item
        return {"long": _spec(base, arrays=arrays), "short": _spec(base, desc=X.p_desc(ins2, base["outs"]), arrays=arrays), "expect": "equal"}
    if sh == "number":
        if not any(X.has_node(e, "num") for e in base["ins"] + base["outs"]):
            return None
        used = {it[1].split(".")[0] for e in base["ins"] + base["outs"] for it in R._nodes(e) if it[0] == "ax"} | set(base["sizes"])
        fresh = [n for n in G.NAMES + ["n1", "n2", "n3", "n4", "n5", "n6", "n7", "n8"] if n not in used]
        mapping = {}
        sizes = dict(base["sizes"])

        def f(it):
            if it[0] == "num":
                if it[2] not in mapping:
                    mapping[it[2]] = fresh.pop(0)
                    sizes[mapping[it[2]]] = it[1]
                return [["ax", mapping[it[2]]]]
            return [it]

        ins2 = [_map_items(e, f) for e in base["ins"]]
        outs2 = [_map_items(e, f) for e in base["outs"]]
        # numbers inside an ellipsis template would need per-repetition names: skip those
        for e in base["ins"] + base["outs"]:
            for it in R._nodes(e):
                if it[0] == "ell" and X.has_node(it[1], "num"):
                    return None
        return {"long": _spec(base, desc=X.p_desc(ins2, outs2), arrays=arrays, sizes=sizes), "short": _spec(base, arrays=arrays), "expect": "equal"}
    if sh in ("anon_ellipsis", "expand_ellipsis", "scalar_size"):
        ells = [it for e in base["ins"] + base["outs"] for it in R._nodes(e) if it[0] == "ell"]
        if not ells:
            return None
        if sh == "anon_ellipsis":
            bases = {tuple(l[1] for l, _ in X.walk_leaves(it[1])) for it in ells}
            plain = all(it[1] == [["ax", it[1][0][1]]] for it in ells if it[1][0][0] == "ax") and all(it[1][0][0] == "ax" for it in ells)
            if len(bases) != 1 or not plain:
                return None
            fam = list(bases)[0][0]
            if fam in base["sizes"]:
                return None  # an anonymous ellipsis cannot be given a size keyword

            def f(it):
                if it[0] == "ell":
                    return [["ell", it[1], it[2], it[3], True]]
                return [it]

            ins2 = [_map_items(e, f) for e in base["ins"]]
            outs2 = [_map_items(e, f) for e in base["outs"]]
            return {"long": _spec(base, arrays=arrays), "short": _spec(base, desc=X.p_desc(ins2, outs2), arrays=arrays), "expect": "equal"}
        if sh == "expand_ellipsis":
            used = {it[1].split(".")[0] for e in base["ins"] + base["outs"] for it in R._nodes(e) if it[0] == "ax"} | set(base["sizes"])
            sizes = {k: v for k, v in base["sizes"].items()}
            ren = {}

            def name_of(n):
                if "." in n:
                    if n not in ren:
                        b, i = n.split(".", 1)
                        cand = f"{b}_{i}"
                        while cand in used:
                            cand += "x"
                        used.add(cand)
                        ren[n] = cand
                    return ren[n]
                return n

            def f(it):
                if it[0] == "ell":
                    return R.map_names(it[3], name_of)
                return [it]

            ins2 = [_map_items(e, f) for e in base["ins"]]
            outs2 = [_map_items(e, f) for e in base["outs"]]
            # an ellipsis with zero repetitions can take the only brackets of the call with it; the written-out
            # form then falls under the "no brackets at all" rule of reductions/dot, which is a different call
            if any(X.has_node(e, "br") for e in base["ins"]) != any(X.has_node(e, "br") for e in ins2):
                return None
            for fam in list(sizes):
                members = sorted((m for m in env if m.startswith(fam + ".")), key=lambda m: int(m.split(".")[1]))
                if any(it[0] == "ell" and any(l[1] == fam for l, _ in X.walk_leaves(it[1])) for it in ells):
                    v = sizes.pop(fam)
                    for i, m in enumerate(members):
                        sizes[name_of(m)] = v[i] if isinstance(v, list) else v
            return {"long": _spec(base, desc=X.p_desc(ins2, outs2), arrays=arrays, sizes=sizes), "short": _spec(base, arrays=arrays), "expect": "equal"}
        # scalar_size
        det = set(base["meta"].get("det_fams", []))
        cands = [k for k, v in base["sizes"].items() if isinstance(v, list) and len(v) >= 1 and len(set(v)) == 1 and k in det]
        cands += [k for k, v in base["sizes"].items() if not isinstance(v, list) and any(m.startswith(k + ".") for m in env)]
        if not cands:
            return None
        k = cands[rnd[0] % len(cands)]
        v = base["sizes"][k]
        members = [m for m in env if m.startswith(k + ".")]
        s_long = dict(base["sizes"])
        s_short = dict(base["sizes"])
        if isinstance(v, list):
            s_short[k] = v[0]
        else:
            s_long[k] = [v] * len(members)
        kind = rnd[1] % 3
        if kind == 1:
            s_long[k] = tuple(s_long[k])
        elif kind == 2:
            s_long[k] = np.asarray(s_long[k])
        return {"long": _spec(base, arrays=arrays, sizes=s_long), "short": _spec(base, arrays=arrays, sizes=s_short), "expect": "equal"}
    if sh == "nested":
        n = base["nested"]
        nP, nS = n["nP"], n["nS"]

        def mid(e):
            m = e[nP : len(e) - nS] if nS else e[nP:]
            return m

        P = base["ins"][0][:nP]
        S = base["ins"][0][len(base["ins"][0]) - nS :] if nS else []
        o, c = ("[", "]") if n["wrapper"] == "br" else ("(", ")")

        def inner(e):
            m = mid(e)
            if not m:
                return ""
            assert len(m) == 1 and m[0][0] in ("br", "flat")
            return X.p_items(m[0][1])

        ins_s = ", ".join(inner(e) for e in base["ins"])
        outs_s = ", ".join(inner(e) for e in base["outs"])
        parts = []
        if P:
            parts.append(X.p_items(P))
        parts.append(f"{o}{ins_s} -> {outs_s}{c}")
        if S:
            parts.append(X.p_items(S))
        short = " ".join(parts)
        return {"long": _spec(base, arrays=arrays), "short": _spec(base, desc=short, arrays=arrays), "expect": "equal"}
    if sh == "adjacent_brackets":
        changed = {"n": 0}
        mode = rnd[0] % 2

        def merge(items):
            out = []
            for it in items:
                if it[0] in ("flat",):
                    it = ["flat", merge(it[1])]
                if out and out[-1][0] == "br" and it[0] == "br":
                    out[-1] = ["br", out[-1][1] + it[1]]
                    changed["n"] += 1
                else:
                    out.append(it)
            return out

        def split(items):
            out = []
            for it in items:
                if it[0] == "flat":
                    it = ["flat", split(it[1])]
                if it[0] == "br" and len(it[1]) > 1:
                    for c in it[1]:
                        out.append(["br", [c]])
                    changed["n"] += 1
                else:
                    out.append(it)
            return out

        f = merge if mode == 0 else split
        ins2 = [f(e) for e in base["ins"]]
        outs2 = [f(e) for e in base["outs"]]
        if not changed["n"]:
            f = split if mode == 0 else merge
            ins2 = [f(e) for e in base["ins"]]
            outs2 = [f(e) for e in base["outs"]]
        if not changed["n"]:
            return None
        return {"long": _spec(base, arrays=arrays), "short": _spec(base, desc=X.p_desc(ins2, outs2), arrays=arrays), "expect": "equal"}
    if sh == "keepdims":
        if not base.get("implicit_ok"):
            return None
        e = base["ins"][0]
        ok = {"v": True, "n": 0}

        def f(it):
            if it[0] == "br":
                ok["n"] += 1
                if R.item_ndims(it) != 1:
                    ok["v"] = False
                return [["flat", [it]]]
            return [it]

        for it in R._nodes(e):
            if it[0] == "ell" and X.has_node(it[1], "br"):
                return None
        wrapped = _map_items(e, f)
        if not ok["v"] or ok["n"] == 0:
            return None
        # a bracket directly inside parentheses with other members: "(a [b])" -> "(a ([b]))" is still one dimension: fine
        return {"long": _spec(base, desc=X.p_items(wrapped), arrays=arrays), "short": _spec(base, desc=X.p_items(e), arrays=arrays, opts={"keepdims": True}), "expect": "equal"}
    if sh == "coord1":
        fam = G.family_of(base["op"])
        coords_idx = list(range(1, len(base["ins"]))) if fam == "get_at" else list(range(1, len(base["ins"]) - 1))
        cands = []
        for i in coords_idx:
            e = base["ins"][i]
            for j, it in enumerate(e):
                if it[0] == "br" and R.item_ndims(it) == 1 and X.item_len(it[1][0], env) == 1 and len(it[1]) == 1 and it[1][0][0] in ("ax", "num"):
                    cands.append((i, j))
        if not cands:
            return None
        i, j = cands[rnd[0] % len(cands)]
        e = base["ins"][i]
        d0 = sum(R.item_ndims(x) for x in e[:j])
        ins2 = copy.deepcopy(base["ins"])
        ins2[i] = e[:j] + e[j + 1 :]
        arrays2 = list(arrays)
        arrays2[i] = np.asarray(arrays[i]).reshape(arrays[i].shape[:d0] + arrays[i].shape[d0 + 1 :])
        sizes2 = {k: v for k, v in base["sizes"].items() if not (e[j][1][0][0] == "ax" and k == e[j][1][0][1])}
        return {"long": _spec(base, arrays=arrays), "short": _spec(base, desc=X.p_desc(ins2, base["outs"]), arrays=arrays2, sizes=sizes2), "expect": "equal"}
    if sh == "argfind1":
        o = base["outs"][0]
        cands = [j for j, it in enumerate(o) if it[0] == "br" and len(it[1]) == 1 and it[1][0][0] in ("ax", "num") and X.item_len(it[1][0], env) == 1]
        if not cands:
            return None
        j = cands[0]
        d0 = sum(R.item_ndims(x) for x in o[:j])
        outs2 = [o[:j] + o[j + 1 :]]
        sizes2 = {k: v for k, v in base["sizes"].items() if not (o[j][1][0][0] == "ax" and k == o[j][1][0][1])}

        def post(res):
            r = np.asarray(res[0])
            return (r.reshape(r.shape[:d0] + r.shape[d0 + 1 :]),)

        return {"long": _spec(base, arrays=arrays), "short": _spec(base, desc=X.p_desc(base["ins"], outs2), arrays=arrays, sizes=sizes2), "expect": "equal", "post_long": post}
    if sh == "spaces":
        d2 = _space_out(base["desc"], rnd[0])
        if d2 == base["desc"]:
            return None
        return {"long": _spec(base, arrays=arrays), "short": _spec(base, desc=d2, arrays=arrays), "expect": "equal"}
    if sh == "rearrange":
        return {"long": _spec(base, arrays=arrays), "short": _spec(base, arrays=arrays, fn="rearrange"), "expect": "equal"}
    return None


def evaluate(rc, stats):
    import einx

    sh, base = rc["sh"], rc["base"]
    arrays = G.build_arrays(base)
    try:
        d = derive(rc, arrays)
    except (AssertionError, KeyError, IndexError) as e:
        raise common.HarnessError(f"derive failed for {sh}: {type(e).__name__} {e} on {base['desc']}") from e
    if d is None:
        stats.count("skip:" + sh)
        return []
    stats.count("sh:" + sh)
    short = d["short"]
    rs = _run(short)
    env = base["env"]
    big = [v for v in env.values() if v > 1]

    def key():
        return [sh, G.canon_key(base)]

    if d["expect"] == "short_raises_SemanticError":
        stats.sample({"shorthand": sh, "short": short["desc"], "expect": "SemanticError"})
        if len(big) >= 2:
            stats.nt(key())
        if rs[0] == "ok":
            return [Violation(f"C07|ambiguous_accepted|{G.family_of(base['op'])}", f"{base['op']}({short['desc']!r}) has no unique superset input (documented to raise) but returned a result of shape {[np.shape(r) for r in rs[1]]}; backend={base.get('backend')}")]
        if not isinstance(rs[1], (einx.errors.SemanticError, einx.errors.OperationNotSupportedError)):
            return [Violation(common.exc_bucket(PROP, rs[1], sh), f"{base['op']}({short['desc']!r}): expected SemanticError for the ambiguous implicit output, got {type(rs[1]).__name__}: {str(rs[1])[:200]}")]
        return []
    long = d["long"]
    rl = _run(long)
    differ = " ".join(long["desc"].split()) != " ".join(short["desc"].split()) or long["op"] != short["op"] or repr(long["sizes"]) != repr(short["sizes"]) or long["opts"] != short["opts"]
    if differ and len(big) >= 2:
        stats.nt(key())
    stats.sample({"shorthand": sh, "op": base["op"], "long": long["desc"], "short": short["desc"], "long_sizes": {k: repr(v) for k, v in long["sizes"].items()}, "short_sizes": {k: repr(v) for k, v in short["sizes"].items()}, "short_opts": short["opts"]}, cap=10)
    stats.count("outcome:" + rl[0] + "/" + rs[0])
    where = f"[{sh}] {base['op']}: long ({long['op']}({long['desc']!r}, sizes={long['sizes']}, opts={long['opts']})) vs short ({short['op']}({short['desc']!r}, sizes={short['sizes']}, opts={short['opts']})) shapes={[np.shape(a) for a in arrays]} backend={base.get('backend')}"
    if rl[0] == "exc" and rs[0] == "exc":
        if type(rl[1]).__name__ != type(rs[1]).__name__:
            return [Violation(f"C07|exc_class|{sh}|{type(rl[1]).__name__}/{type(rs[1]).__name__}", f"{where}: long raises {type(rl[1]).__name__}, short raises {type(rs[1]).__name__}: {str(rs[1])[:200]}")]
        return []
    if rl[0] != rs[0]:
        e = rl[1] if rl[0] == "exc" else rs[1]
        which = "long" if rl[0] == "exc" else "short"
        cause = e.__cause__ if isinstance(e, einx.errors.CallOperationError) and e.__cause__ else e
        return [Violation(common.exc_bucket(PROP, cause, sh + ":" + which), f"{where}: only the {which} form raises {type(e).__name__}: {str(e)[:300]}")]
    a = d["post_long"](rl[1]) if "post_long" in d else rl[1]
    b = rs[1]
    if len(a) != len(b):
        return [Violation(f"C07|arity|{sh}", f"{where}: number of results differs")]
    for x, y in zip(a, b):
        x, y = np.asarray(x), np.asarray(y)
        if x.shape != y.shape:
            return [Violation(f"C07|shape|{sh}|{G.family_of(base['op'])}", f"{where}: shapes {x.shape} vs {y.shape}")]
        if x.dtype.kind in "biu" and y.dtype.kind in "biu":
            same = np.array_equal(x, y)
        else:
            same = np.allclose(x.astype(np.float64), y.astype(np.float64), rtol=1e-9, atol=1e-11, equal_nan=True)
        if not same:
            return [Violation(f"C07|value|{sh}|{G.family_of(base['op'])}", f"{where}: values differ")]
    return []


def replay_case(case):
    return evaluate(case, common.Stats())


def make_strategy(tier, k):
    return c07_case(tier)


def worker(k, n, tier, seed, known_buckets, extra):
    return standard_worker(PROP, make_strategy(tier, k), evaluate, k, n, tier, seed, known_buckets, quick_examples=3200, thorough_examples=120000)


def run(tier, seed, known_buckets):
    return standard_run(PROP, tier, seed, known_buckets)

"""C05 -- graph optimisation never changes what an operation computes, and terminates."""

import itertools
import warnings

import numpy as np
from hypothesis import strategies as st

from .. import common, gen as G, graphs as GR, loopvmap as LV, expr as X
from ..common import Violation
from . import c01
from ._base import standard_worker

PROP = "C05"
RULE = (
    "(a) every (graph before, graph after) pair recorded around tracer.optimize while executing generated calls of all "
    "operation families (numpy-family backends, the vmap adapter chain over the loop-vmap double with its nested function graphs, and functions adapted with adapt_with_vmap) is interpreted node by node on the call's own tensors: equal outputs, shapes and in-place effects; "
    "the number of optimiser passes is bounded by nodes+3 and recorded. (b) exhaustive sub-spaces built with einx's own numpy "
    "signature and the numpy backend's optimisation list: all pairs of permutations for ranks 1-5 (15,017 graphs "
    "transpose(transpose(x,p1),p2)), all reshape chains s0->s1->s2 over ordered factorisations (rank<=3, 1-padded) of 12, and "
    "transpose-reshape-transpose sandwiches, each evaluated on tensors with all-distinct entries, with pairwise distinct and "
    "with equal dimension lengths. (c) Hypothesis: random DAGs of reshape/transpose/broadcast_to/concatenate/asarray nodes with "
    "intermediates shared by 2-3 consumers, tuple outputs and an in-place consumer (np.put / np.add.at). Non-trivial: a pair "
    "in which a pattern fired (structure changed); distinct by structural hash of the unoptimised graph."
)
ASSUMPTIONS = [
    "reference interpreter einxverif/graphs.py; graph nodes call the real numpy functions",
    "termination is observed as a pass-count bound on every explored graph (non-termination would exceed the cap and be reported)",
]


def numpy_sig_and_opts():
    import einx._src.tracer as tracer
    from einx._src.frontend.impl.numpy import _get_backend_kwargs

    return tracer, tracer.signature.numpy(), _get_backend_kwargs()["optimizations"]


def tree_equal(a, b):
    if isinstance(a, (list, tuple)):
        return isinstance(b, (list, tuple)) and len(a) == len(b) and all(tree_equal(x, y) for x, y in zip(a, b))
    if isinstance(a, dict):
        return isinstance(b, dict) and a.keys() == b.keys() and all(tree_equal(a[k], b[k]) for k in a)
    a, b = np.asarray(a), np.asarray(b)
    if a.shape != b.shape:
        return False
    if a.dtype.kind in "fc" or b.dtype.kind in "fc":
        return bool(np.allclose(a, b, rtol=1e-12, atol=0, equal_nan=True))
    return bool(np.array_equal(a, b))


def compare_graphs(pre, post, inputs):
    """Interpret both graphs on copies of inputs -> None or message."""
    ins1 = [np.array(a, copy=True) for a in inputs]
    ins2 = [np.array(a, copy=True) for a in inputs]
    try:
        r1 = GR.Interpreter().run(pre, ins1)
    except Exception as e:  # noqa: BLE001
        return ("pre_failed", f"{type(e).__name__}: {e}")
    try:
        import einx._src.tracer as tracer

        if isinstance(post, tracer.Graph):
            r2 = GR.Interpreter().run(post, ins2)
        else:
            # a trivial wrapper graph was inlined: the optimised object is the wrapped function itself
            r2 = GR.Interpreter().eval(post, GR.Frame(None, None))(*ins2)
    except Exception as e:  # noqa: BLE001
        return ("post_failed", f"optimised graph fails ({type(e).__name__}: {str(e)[:200]}) where the original evaluates")
    if not tree_equal(r1, r2):
        return ("value", f"outputs differ: {_short(r1)} vs {_short(r2)}")
    for i, (a, b) in enumerate(zip(ins1, ins2)):
        if not tree_equal(a, b):
            return ("inplace", f"in-place effect on input #{i} differs")
    return None


def _short(r):
    if isinstance(r, (list, tuple)):
        return [_short(x) for x in r]
    a = np.asarray(r)
    return f"shape {a.shape} first {a.reshape(-1)[:6].tolist()}"


# ------------------------------------------------------------------ (a) captured pairs


def evaluate_captured(case, stats):
    import einx

    arrays = G.build_arrays(case)
    if case.get("backend") == LV.NAME:
        LV.backend()
    if case.get("adapter") == "vmap":

        class _R:
            calls = []

        vm = LV.adapt_with_vmap(LV.make_elementary("vm", _R(), [tuple(X.br_shape(o, case["env"])) for o in case["outs"]]))

        def call():
            with warnings.catch_warnings():
                warnings.simplefilter("ignore")
                return vm(case["desc"], *[a.copy() for a in arrays], **case["sizes"], **(case.get("adapter_kwargs") or {}))
    else:
        fn = getattr(einx, case["op"])
        GR.clear_op_cache(fn)

        def call():
            return c01.call_einx(case, [a.copy() for a in arrays])

    with GR.Recorder() as rec:
        try:
            call()
        except GR.NoFixedPoint as e:
            return [Violation("C05|no_fixed_point|captured", f"{case['op']}({case['desc']!r}): {e}")]
        except Exception:  # noqa: BLE001
            pass
    viols = []
    for oc in rec.optimize_calls:
        pre, post = oc["pre"], oc["post"]
        stats.count("captured_pairs")
        stats.count("captured_pairs:" + ("adapter_vmap" if case.get("adapter") else f"backend_{case.get('backend')}"))
        nodes = GR.count_nodes(pre)
        stats.count("passes", oc["passes"])
        changed = GR.structure_signature(pre) != GR.structure_signature(post)
        if changed:
            stats.count("captured_pairs_changed")
            stats.nt(["captured", repr(GR.structure_signature(pre))])
        if GR.count_nodes(post) > nodes:
            viols.append(Violation("C05|grew|captured", f"{case['op']}({case['desc']!r}): node count grew {nodes} -> {GR.count_nodes(post)}"))
        ins = arrays[: len(pre.inputs)]
        if len(ins) != len(pre.inputs):
            continue
        m = compare_graphs(pre, post, ins)
        if m is not None and m[0] != "pre_failed":
            viols.append(Violation(f"C05|{m[0]}|captured|{G.family_of(case['op'])}", f"{case['op']}({case['desc']!r}, shapes={[a.shape for a in arrays]}, backend={case.get('backend')}): {m[1]}"))
        elif m is not None:
            stats.count("captured_pre_failed")
    stats.sample({"kind": "captured", "op": case["op"], "desc": case["desc"], "pairs": len(rec.optimize_calls)}, cap=3)
    return viols[:1]


# ------------------------------------------------------------------ (b) exhaustive


def distinct_tensor(shape):
    n = int(np.prod(shape)) if len(shape) else 1
    return (np.arange(n, dtype=np.int64) * 7 + 3).reshape(shape)


def exhaustive_items(part):
    """Deterministic enumeration of exhaustive sub-spaces as (kind, params)."""
    if part == "transpose":
        for r in range(1, 6):
            perms = list(itertools.permutations(range(r)))
            for p1 in perms:
                for p2 in perms:
                    yield ("tt", (p1, p2))
    elif part == "reshape":
        shapes = factor_shapes(12, 3)
        for s0 in shapes:
            for s1 in shapes:
                for s2 in shapes:
                    yield ("rr", (s0, s1, s2))
    elif part == "sandwich":
        shapes = factor_shapes(12, 3)
        for s0 in shapes:
            for p1 in itertools.permutations(range(len(s0))):
                for s1 in shapes:
                    yield ("trt", (s0, p1, s1))


def factor_shapes(n, max_rank):
    out = set()

    def rec(rem, cur):
        if len(cur) > max_rank:
            return
        if rem == 1 and cur:
            out.add(tuple(cur))
        for d in range(1, rem + 1):
            if rem % d == 0 and len(cur) < max_rank:
                if d == 1 and cur.count(1) >= 2:
                    continue
                rec(rem // d, cur + [d])

    rec(n, [])
    return sorted(s for s in out if int(np.prod(s)) == n)


def build_exhaustive(kind, params, shape_variant):
    tracer, sig, opts = numpy_sig_and_opts()
    T = tracer.signature.classical.Tensor
    if kind == "tt":
        p1, p2 = params
        r = len(p1)
        shape = tuple([2, 3, 4, 5, 6][:r]) if shape_variant == "distinct" else tuple([2] * r)
        x = T(None, shape)
        y = sig.transpose(sig.transpose(x, p1), p2)
    elif kind == "rr":
        s0, s1, s2 = params
        shape = s0
        x = T(None, s0)
        y = sig.reshape(sig.reshape(x, s1), s2)
    elif kind == "trt":
        s0, p1, s1 = params
        shape = s0
        x = T(None, s0)
        y = sig.reshape(sig.transpose(x, p1), s1)
        y = sig.transpose(y, tuple(reversed(range(len(s1)))))
        y = sig.transpose(y, tuple(reversed(range(len(s1)))))
    else:
        raise ValueError(kind)
    return tracer.Graph([x], y, name="op"), opts, shape


def run_exhaustive(k, n, tier, stats):
    tracer, sig, opts = numpy_sig_and_opts()
    viols = {}
    idx = 0
    parts = ["transpose", "reshape", "sandwich"]
    for part in parts:
        for kind, params in exhaustive_items(part):
            idx += 1
            if idx % n != k:
                continue
            for variant in ("distinct", "equal") if kind == "tt" else ("distinct",):
                graph, opts, shape = build_exhaustive(kind, params, variant)
                stats.evaluations += 1
                stats.count("exhaustive:" + part)
                with GR.Recorder() as rec:
                    try:
                        post = tracer.optimize(graph, opts)
                    except GR.NoFixedPoint as e:
                        viols.setdefault("C05|no_fixed_point|" + kind, {"bucket": "C05|no_fixed_point|" + kind, "message": str(e), "case": {"kind": "exhaustive", "graph": [kind, params, variant]}, "detail": {}})
                        continue
                if GR.structure_signature(graph) != GR.structure_signature(post):
                    stats.count("nontrivial_exhaustive")
                m = compare_graphs(graph, post, [distinct_tensor(shape)])
                if m is not None:
                    b = f"C05|{m[0]}|exhaustive|{kind}"
                    if b not in viols:
                        viols[b] = {"bucket": b, "message": f"{kind} {params} on shape {shape}: {m[1]}", "case": {"kind": "exhaustive", "graph": [kind, [list(p) for p in params], variant]}, "detail": {}}
    return list(viols.values())


# ------------------------------------------------------------------ (c) random DAGs


@st.composite
def dag_case(draw):
    """A recipe (list of steps) for a DAG over one or two input tensors."""
    rank = draw(st.integers(1, 4))
    shape = [draw(st.sampled_from([1, 2, 2, 3, 4])) for _ in range(rank)]
    steps = []
    n = draw(st.integers(1, 9))
    for _ in range(n):
        kind = draw(st.sampled_from(["reshape", "transpose", "broadcast", "concat1", "asarray", "reshape_same", "transpose_id", "add", "inplace_put", "inplace_addat"]))
        steps.append({"kind": kind, "src": draw(st.integers(0, 50)), "src2": draw(st.integers(0, 50)), "rnd": draw(st.integers(0, 10**6))})
    outs = [draw(st.integers(0, 50)) for _ in range(draw(st.integers(1, 3)))]
    return {"kind": "dag", "shape": shape, "steps": steps, "outs": outs}


def build_dag(case):
    tracer, sig, opts = numpy_sig_and_opts()
    T = tracer.signature.classical.Tensor
    np_ = tracer.signature.python.import_("numpy", as_="np")
    x = T(None, tuple(case["shape"]))
    vals = [x]
    inplace_used = False
    for st_ in case["steps"]:
        src = vals[st_["src"] % len(vals)]
        rng = np.random.default_rng(st_["rnd"])
        kind = st_["kind"]
        shape = tuple(src.shape)
        n = int(np.prod(shape)) if shape else 1
        try:
            if kind == "reshape":
                cands = [s for s in all_shapes(n) if len(s) <= 4]
                v = sig.reshape(src, cands[st_["rnd"] % len(cands)])
            elif kind == "reshape_same":
                v = sig.reshape(src, shape)
            elif kind == "transpose":
                perm = tuple(int(i) for i in rng.permutation(len(shape)))
                v = sig.transpose(src, perm)
            elif kind == "transpose_id":
                v = sig.transpose(src, tuple(range(len(shape))))
            elif kind == "broadcast":
                new = tuple(int(rng.integers(2, 4)) if s == 1 and rng.random() < 0.6 else s for s in shape)
                v = sig.broadcast_to(src, new)
            elif kind == "concat1":
                if len(shape) == 0:
                    continue
                v = sig.concatenate([src], axis=int(rng.integers(0, len(shape))))
            elif kind == "asarray":
                v = sig.asarray(src)
            elif kind == "add":
                other = vals[st_["src2"] % len(vals)]
                if tuple(other.shape) != shape:
                    continue
                v = sig.add(src, other)
            elif kind in ("inplace_put", "inplace_addat"):
                # mutate a *fresh copy* of src so that all other readers are ordered by data dependence
                if len(shape) != 1 or inplace_used:
                    continue
                fresh = sig.add(src, 0)
                idx = np.asarray([int(i) for i in rng.integers(0, shape[0], size=2)])
                upd = np.asarray([5, 9])
                if kind == "inplace_put":
                    v = sig.put(fresh, idx, upd)
                else:
                    v = sig.add.at(fresh, idx, upd)
                inplace_used = True
            else:
                continue
        except Exception:  # noqa: BLE001
            continue
        vals.append(v)
    outs = [vals[o % len(vals)] for o in case["outs"]]
    out = outs[0] if len(outs) == 1 else tuple(outs)
    return tracer.Graph([x], out, name="op"), opts


def all_shapes(n):
    out = [(n,)]
    for a in range(1, n + 1):
        if n % a == 0:
            out.append((a, n // a))
            for b in range(1, n // a + 1):
                if (n // a) % b == 0:
                    out.append((a, b, n // a // b))
    return sorted(set(out))


def evaluate_dag(case, stats):
    tracer, sig, opts = numpy_sig_and_opts()
    try:
        graph, opts = build_dag(case)
    except Exception as e:  # noqa: BLE001
        stats.count("dag_build_failed")
        return []
    with GR.Recorder() as rec:
        try:
            post = tracer.optimize(graph, opts)
        except GR.NoFixedPoint as e:
            return [Violation("C05|no_fixed_point|dag", str(e))]
        except Exception as e:  # noqa: BLE001
            return [Violation(common.exc_bucket(PROP, e, "dag"), f"optimize raised {type(e).__name__}: {str(e)[:200]} on DAG {case}")]
    stats.count("dags")
    if GR.structure_signature(graph) != GR.structure_signature(post):
        stats.count("dags_changed")
        stats.nt(["dag", repr(GR.structure_signature(graph))])
    shared = sum(1 for s in case["steps"]) > len({s["src"] for s in case["steps"]})
    if GR.count_nodes(post) > GR.count_nodes(graph):
        return [Violation("C05|grew|dag", f"node count grew on DAG {case}")]
    m = compare_graphs(graph, post, [distinct_tensor(tuple(case["shape"]))])
    stats.sample({"kind": "dag", "shape": case["shape"], "steps": [s["kind"] for s in case["steps"]], "n_outputs": len(case["outs"])}, cap=4)
    if m is not None and m[0] != "pre_failed":
        return [Violation(f"C05|{m[0]}|dag", f"DAG shape={case['shape']} steps={[s['kind'] for s in case['steps']]} outs={case['outs']}: {m[1]}")]
    return []


# ------------------------------------------------------------------ glue


@st.composite
def wrapper_case(draw):
    """Graph(inputs -> f(args...)) where args is a drawn sequence over the inputs (identity, permuted, repeated, fewer)."""
    n = draw(st.integers(1, 3))
    m = draw(st.integers(1, 3))
    args = [draw(st.integers(0, n - 1)) for _ in range(m)]
    if draw(st.booleans()):
        args = list(range(n))
    return {"kind": "wrapper", "n": n, "args": args, "fn": draw(st.sampled_from(["subtract", "stack", "pyfunc", "method"])), "cast": draw(st.booleans())}


def _wrap_fn(*xs):
    r = 0.0
    for i, x in enumerate(xs):
        r = r + (i + 1) * np.asarray(x, dtype=np.float64)
    return r


def evaluate_wrapper(case, stats):
    tracer, sig, opts = numpy_sig_and_opts()
    py = tracer.signature.python
    T = tracer.signature.classical.Tensor
    ins = [T(None, (3,)) for _ in range(case["n"])]
    np_ = py.import_("numpy", as_="np")
    if case["fn"] == "subtract" and len(case["args"]) == 2:
        f = np_.subtract
    elif case["fn"] == "method":
        f = py.getattr(ins[0], "dot")  # the function depends on a graph input
    elif case["fn"] == "stack":
        f = py.constant(lambda *xs: np.stack([np.asarray(x) for x in xs]))
    else:
        f = py.constant(_wrap_fn)
    out = py.call(f, [ins[i] for i in case["args"]])
    if case["cast"]:
        out = tracer.cast(out, lambda origin: py.Value(origin))
    # anonymous graphs are what vmap-style backends create for inner functions (only those are candidates for inlining)
    graph = tracer.Graph(ins, out, name=None)
    with GR.Recorder():
        try:
            post = tracer.optimize(graph, opts)
        except GR.NoFixedPoint as e:
            return [Violation("C05|no_fixed_point|wrapper", str(e))]
    stats.count("wrappers")
    if not isinstance(post, tracer.Graph):
        stats.count("wrappers_inlined")
        stats.nt(["wrapper", case["n"], case["args"], case["fn"], case["cast"]])
    data = [distinct_tensor((3,)) * (i + 2) for i in range(case["n"])]
    m = compare_graphs(graph, post, data)
    stats.sample({"kind": "wrapper", "inputs": case["n"], "call_args": case["args"], "fn": case["fn"]}, cap=3)
    if m is not None and m[0] != "pre_failed":
        return [Violation(f"C05|{m[0]}|wrapper", f"wrapper graph op({case['n']} inputs) = {case['fn']}(inputs{case['args']}): {m[1]}")]
    return []


@st.composite
def c05_case(draw, tier="quick", k=0):
    r = draw(st.integers(0, 5))
    if r == 0:
        return draw(wrapper_case())
    if r <= 2:
        return draw(dag_case())
    if draw(st.integers(0, 7)) == 0:
        c = draw(G.call_case(ops=["vmapop"], quick=True, backends=[None]))
        c["adapter"] = "vmap"
        c["adapter_kwargs"] = draw(st.sampled_from([{}, {"scale": 2.5}]))
        return {"kind": "captured", "call": c}
    c = draw(G.stratified_case(k, quick=(tier == "quick"), backends=[None, "numpy", "numpy.numpylike", "numpy.einsum", LV.NAME, LV.NAME]))
    return {"kind": "captured", "call": c}


def evaluate(case, stats):
    if case["kind"] == "dag":
        return evaluate_dag(case, stats)
    if case["kind"] == "wrapper":
        return evaluate_wrapper(case, stats)
    if case["kind"] == "exhaustive":
        kind, params, variant = case["graph"]
        params = tuple(tuple(p) for p in params)
        tracer, sig, opts = numpy_sig_and_opts()
        graph, opts, shape = build_exhaustive(kind, params, variant)
        post = tracer.optimize(graph, opts)
        m = compare_graphs(graph, post, [distinct_tensor(shape)])
        return [Violation(f"C05|{m[0]}|exhaustive|{kind}", f"{kind} {params}: {m[1]}")] if m else []
    return evaluate_captured(case["call"], stats)


def replay_case(case):
    return evaluate(case, common.Stats())


def worker(k, n, tier, seed, known_buckets, extra):
    fr = standard_worker(PROP, c05_case(tier, k), evaluate, k, n, tier, seed, known_buckets, quick_examples=2400, thorough_examples=100000)
    stats = common.Stats()
    viols = run_exhaustive(k, n, tier, stats)
    fr2 = stats.to_fragment()
    fr2["violations"] = [v for v in viols if v["bucket"] not in known_buckets]
    merged = common.merge_fragments([fr, fr2])
    merged["nontrivial"] = list(merged["nontrivial"])
    return merged


def run(tier, seed, known_buckets):
    frags = common.run_workers(PROP, common.NWORKERS, tier, seed, known_buckets, None)
    merged = common.merge_fragments(frags)
    merged["nt_extra"] = merged["hist"].get("nontrivial_exhaustive", 0)
    merged["extra_cov"] = {
        "exhaustive": True,
        "exhaustive_space": "sub-space (b): all permutation pairs ranks 1-5 (x2 length patterns), all reshape chains and transpose-reshape sandwiches over factorisations of 12 (rank<=3); (a) and (c) are sampled",
    }
    return merged


def make_strategy(tier, k):
    return c05_case(tier, k)

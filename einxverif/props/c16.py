"""C16 -- results are reproducible across processes, hash seeds and repeated calls."""

import json
import os
import shutil
import subprocess
import sys
import tempfile

import numpy as np
from hypothesis import strategies as st

from .. import common, gen as G, expr as X, loopvmap as LV
from ..common import Violation
from . import c01
from ._base import standard_run, standard_worker

PROP = "C16"
RULE = (
    "Hypothesis draws a corpus of calls (all families, biased to several inputs / coordinate tensors / unnamed axes / "
    "ellipses, plus ill-formed twins with a removed size keyword or a changed dimension) as JSON in the parent; the corpus is "
    "executed in fresh child interpreters with PYTHONHASHSEED in {0,1,2,3,random,...} and with uuid.uuid4 replaced by "
    "ascending / descending / shuffled deterministic draws (or left real), each call 1-3 times, in two different orders. "
    "Oracle: for every entry the outcome (shapes; integer/bool values bit-identical; floats within rtol 1e-9; exception class) is "
    "the same in every child and repetition, and within one child graph=True returns identical text on a warm cache and after "
    "the operation's compile cache was cleared. Non-trivial: an entry with >=2 inputs or an unnamed axis / ellipsis; distinct "
    "by canonical entry."
)
ASSUMPTIONS = c01.ASSUMPTIONS + [
    "set_at entries with competing updates are excluded from the value comparison across processes only if the documentation leaves the winner open: they are kept, since one backend applies updates in a fixed order; a difference would be reported",
    "code text is compared within one process only (the property does not require identical text across processes)",
]


@st.composite
def corpus_case(draw, tier="quick"):
    # 20 entries per corpus in both tiers: a 40-entry corpus exceeds Hypothesis' choice-sequence budget and degenerates into
    # the all-minimal case (seen in the first thorough run: 784 of 800 entries were the same trivial call); the thorough tier
    # runs more corpora and more child interpreters instead
    n = 20
    entries = []
    while len(entries) < n:
        mode = draw(st.integers(0, 9))
        B = [None, "numpy", "numpy.numpylike", None, LV.NAME]
        if mode in (2, 4):
            # implicit output (the scalar-op default is chosen from a set of candidate expressions)
            c = draw(G.call_case(ops=G.FAMILY_OPS["elementwise"] + G.REDUCE + G.ARGFIND, quick=True, implicit=True, min_inputs=2, backends=B, flags={"full_inputs": draw(st.booleans())}))
            c["desc"] = X.p_desc(c["ins"])
            c["short"] = True
        elif mode == 3:
            # the same call with tensor factories of two different signature kinds (cache-key twins)
            c = draw(G.call_case(quick=True, factories=True, backends=["numpy", "numpy.numpylike", None]))
            kinds = ["shape", "shape_name", "all_optional", "var_kwargs", "kwonly_argindex"]
            c["fkinds"] = [draw(st.sampled_from(kinds)) for _ in c["ins"]]
            entries.append(c)
            import copy as _copy

            c2 = _copy.deepcopy(c)
            c2["fkinds"] = [draw(st.sampled_from(kinds)) for _ in c["ins"]]
            entries.append(c2)
            continue
        elif mode == 5:
            # several adjacent output-only axes: the common-subexpression pass has overlapping candidates there; which one it
            # takes must not depend on hashing or on the identifiers drawn for unnamed axes
            c = draw(G.call_case(ops=G.FAMILY_OPS["elementwise"] + G.REDUCE + G.ARGFIND + ["id", "get_at"], quick=True, backends=B, flags={"bcast_heavy": True, "no_diag": True}))
        else:
            c = draw(G.call_case(quick=True, backends=B))
        if mode == 0 and c["meta"].get("minimal"):
            k = c["meta"]["minimal"][draw(st.integers(0, len(c["meta"]["minimal"]) - 1))]
            c["sizes"] = {kk: v for kk, v in c["sizes"].items() if kk != k}
            c["ill"] = "dropped_size"
        elif mode == 1 and c["ins"]:
            j = draw(st.integers(0, len(c["ins"]) - 1))
            shp = list(X.shape_of(X.expand(c["ins"][j]), c["env"]))
            if shp:
                d = draw(st.integers(0, len(shp) - 1))
                shp[d] += 1
                c["corrupt_shape"] = {str(j): shp}
                c["ill"] = "changed_dim"
        entries.append(c)
    n = len(entries)
    nchild = 6 if tier == "quick" else 12
    cfgs = []
    for i in range(nchild):
        order = list(draw(st.permutations(range(n)))) if i % 2 else list(range(n))
        cfgs.append(
            {
                # child 0 is the reference (seed 0); the others get drawn seeds (not a fixed list: whether a hash-order
                # dependence shows depends on the strings involved, so many different seeds across corpora)
                "hashseed": "0" if i == 0 else ("random" if i % 6 == 4 else str(draw(st.integers(1, 2**20)))),
                "uuid_mode": ["real", "ascending", "descending", "shuffled"][i % 4],
                "uuid_seed": draw(st.integers(0, 1000)),
                "child_index": i,
                "order": order,
                "reps": [draw(st.integers(1, 3)) for _ in range(n)],
            }
        )
    return {"entries": entries, "cfgs": cfgs}


def run_children(rc):
    work = tempfile.mkdtemp(prefix="einxverif_c16_", dir=os.environ.get("VERIF_SCRATCH", "/tmp"))
    try:
        cp = os.path.join(work, "corpus.json")
        with open(cp, "w") as f:
            f.write(common.jdump(rc["entries"]))
        procs = []
        for i, cfg in enumerate(rc["cfgs"]):
            cfgp = os.path.join(work, f"cfg{i}.json")
            outp = os.path.join(work, f"out{i}.json")
            with open(cfgp, "w") as f:
                json.dump(cfg, f)
            env = dict(os.environ)
            env["PYTHONHASHSEED"] = cfg["hashseed"]
            p = subprocess.Popen([sys.executable, "-m", "einxverif.c16_child", cp, cfgp, outp], env=env, cwd=common.VERIF, stdout=subprocess.PIPE, stderr=subprocess.STDOUT)
            procs.append((p, outp))
            if len(procs) % 3 == 0:
                for q, _ in procs:
                    q.wait()
        outs = []
        for p, outp in procs:
            out, _ = p.communicate()
            if p.returncode != 0 or not os.path.exists(outp):
                raise common.HarnessError(f"C16 child failed: {out.decode()[-2000:]}")
            outs.append(json.load(open(outp)))
        return outs
    finally:
        shutil.rmtree(work, ignore_errors=True)


def same(d1, d2):
    if d1[0] != d2[0]:
        return f"{d1[0]} vs {d2[0]} ({[d for d in (d1, d2) if d[0] == 'exc'][0][1:]})"
    if d1[0] == "exc":
        return None if d1[1] == d2[1] else f"exception {d1[1]} ({d1[2] if len(d1) > 2 else ''}) vs {d2[1]} ({d2[2] if len(d2) > 2 else ''})"
    if len(d1[1]) != len(d2[1]):
        return "number of outputs"
    for a, b in zip(d1[1], d2[1]):
        if a["shape"] != b["shape"]:
            return f"shape {a['shape']} vs {b['shape']}"
        if a["kind"] in "biu" and b["kind"] in "biu":
            if a["values"] != b["values"]:
                return "integer/bool values differ"
        else:
            x, y = np.asarray(a["values"], dtype=np.float64), np.asarray(b["values"], dtype=np.float64)
            if not np.allclose(x, y, rtol=1e-9, atol=1e-11, equal_nan=True):
                return "float values differ beyond re-association"
    return None


def evaluate(rc, stats):
    outs = run_children(rc)
    entries = rc["entries"]
    viols = []
    for idx, case in enumerate(entries):
        key = str(idx)
        stats.count("entries")
        if case.get("ill"):
            stats.count("entries_ill:" + case["ill"])
        feats = G.features(case)
        if len(case["ins"]) >= 2 or feats["numeric"] or feats["ellipsis"]:
            stats.nt(G.canon_key(case))
        if case.get("short"):
            stats.count("entries_implicit_output")
        if case.get("fkinds"):
            stats.count("entries_factory")
        ref = outs[0]["results"][key][0]
        stats.count("outcome:" + ref[0])
        for ci, o in enumerate(outs):
            for rep, d in enumerate(o["results"][key]):
                m = same(ref, d)
                if m:
                    cfg = rc["cfgs"][ci]
                    viols.append(
                        Violation(
                            f"C16|differs|{G.family_of(case['op'])}|{ref[0]}",
                            f"{case['op']}({case['desc']!r}, sizes={case['sizes']}, backend={case.get('backend')}): outcome in child {ci} (PYTHONHASHSEED={cfg['hashseed']}, uuid={cfg['uuid_mode']}, repetition {rep}) differs from child 0: {m}",
                        )
                    )
                    break
            g = o["graphs"].get(key, ["skipped"])
            if g[0] == "ok" and (not g[1] or not g[2]):
                viols.append(
                    Violation(
                        f"C16|graph_text|{G.family_of(case['op'])}|{'warm' if not g[1] else 'recompiled'}",
                        f"{case['op']}({case['desc']!r}): two graph=True requests in one process returned different text ({'warm cache' if not g[1] else 'after clearing the compile cache'}):\n{g[3]}\n---\n{g[4]}",
                    )
                )
            if viols:
                break
        if viols:
            break
    stats.count("children", len(outs))
    stats.count("cache_clears", sum(o["notes"]["cache_cleared"] for o in outs))
    if entries:
        stats.sample({"entry": {"op": entries[0]["op"], "desc": entries[0]["desc"], "sizes": entries[0]["sizes"]}, "children": [{k: c[k] for k in ("hashseed", "uuid_mode")} for c in rc["cfgs"]]}, cap=3)
    return viols[:1]


def replay_case(case):
    return evaluate(case, common.Stats())


def make_strategy(tier, k):
    return corpus_case(tier)


def worker(k, n, tier, seed, known_buckets, extra):
    fr = standard_worker(PROP, make_strategy(tier, k), evaluate, k, n, tier, seed, known_buckets, quick_examples=3 * n - 1, thorough_examples=16 * n, shrink_quick=60.0, shrink_thorough=300.0)
    # evaluations = corpus entries executed, not corpora
    fr["extra"]["corpora"] = fr["evaluations"]
    fr["evaluations"] = fr["hist"].get("entries", 0)
    return fr


def run(tier, seed, known_buckets):
    # every worker keeps 3 child interpreters busy: 5 workers saturate the 16 cores
    frags = common.run_workers(PROP, 5, tier, seed, known_buckets, None)
    return common.merge_fragments(frags)

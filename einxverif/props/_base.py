"""Default run loop shared by the call-based properties."""

from .. import common


def standard_worker(prop, strategy, evaluate, k, n, tier, seed, known_buckets, *, quick_examples, thorough_examples, shrink_quick=40.0, shrink_thorough=200.0):
    per_worker = int((quick_examples if tier == "quick" else thorough_examples) * common.SCALE) // n + 1
    stats, viols = common.hyp_search(
        prop,
        strategy,
        evaluate,
        seed=seed * 1000 + k,
        max_examples=per_worker,
        known_buckets=known_buckets,
        shrink_budget_s=shrink_quick if tier == "quick" else shrink_thorough,
    )
    fr = stats.to_fragment()
    fr["violations"] = viols
    return fr


def standard_run(prop, tier, seed, known_buckets, extra=None):
    frags = common.run_workers(prop, common.NWORKERS, tier, seed, known_buckets, extra)
    return common.merge_fragments(frags)

"""C06 -- a call's outcome does not depend on earlier calls (cache transparency)."""

import copy
import json
import os
import subprocess
import sys

import numpy as np
from hypothesis import strategies as st

from .. import common, gen as G, expr as X
from ..common import Violation
from ._base import standard_run, standard_worker

PROP = "C06"
RULE = (
    "Hypothesis draws histories of 5-30 steps over a pool of 2-5 generated calls: the call itself, its hash-equal twins (size "
    "2 / 2.0 / True / np.int64(2); ellipsis sizes as list / tuple / array; 0-d tensors as ndarray / Python scalar / numpy "
    "scalar / tensor factory; adapter options 1 / 1.0 / True), graph=True requests, solve_axes/solve_shapes/matches on the same "
    "expressions, calls through einx.numpy adapters, failing variants (syntax error, wrong rank, wrong size, brackets where "
    "not allowed, unsupported backend, raising / mis-shaped tensor factory), blocks of the same call with short-lived factories of three different signatures in one position, and nested 'with backend:' enter/exit steps; steps "
    "are repeated so that cache hits and twin collisions occur. The whole history runs in one forked interpreter; every step "
    "is also run alone in a pristine fork of a zygote that has imported einx but never called it (same with-stack). Oracle: "
    "equal outcome digests (shapes, values; code text up to variable naming; exception class), and after the history the "
    "registry's with-stack and the tracing dependency stack are empty. Non-trivial: a history in which some call is preceded "
    "by an equal or hash-equal call; distinct by the sequence of step keys."
)
ASSUMPTIONS = [
    "tensor data is not part of a call's identity for caching (tracing sees shapes only); results are compared on the data actually passed",
    "a pristine fork of a process that imported einx is taken as 'fresh interpreter' (the lazily created numpy backends are created inside each fork)",
    "set_at with competing updates is excluded (C14/C16 own it)",
]

BACKENDS = ["numpy", "numpy.numpylike", "numpy.einsum"]


@st.composite
def history_case(draw, tier="quick"):
    npool = draw(st.integers(2, 5))
    pool = []
    for _ in range(npool):
        c = draw(G.call_case(quick=True, backends=[None, None, "numpy", "numpy.numpylike", "numpy.einsum"], ops=[o for o in G.ALL_OPS if o != "set_at"]))
        pool.append(c)
    nsteps = draw(st.integers(5, 24 if tier == "quick" else 40))
    steps = []
    depth = 0
    for _ in range(nsteps):
        r = draw(st.integers(0, 19))
        if r <= 1 and depth < 3:
            # two names only, so that "with A: with B: with A:" nestings occur
            steps.append({"kind": "enter", "backend": draw(st.sampled_from(BACKENDS[:2] + BACKENDS))})
            depth += 1
            continue
        if r <= 3 and depth > 0:
            steps.append({"kind": "exit"})
            depth -= 1
            continue
        if r <= 8 and any(s["kind"] == "call" for s in steps):
            # exact repetition of an earlier call (cache hit)
            prev = [s for s in steps if s["kind"] == "call"]
            steps.append(copy.deepcopy(prev[draw(st.integers(0, len(prev) - 1))]))
            continue
        pi = draw(st.integers(0, npool - 1))
        case = pool[pi]
        step = {"kind": "call", "pool": pi, "case": case, "entry": case["op"], "graph": False, "size_kinds": {}, "argkinds": [], "extra_kwargs": {}}
        # argument kinds
        for e in case["ins"]:
            shp = X.shape_of(X.expand(e), case["env"])
            if len(shp) == 0:
                step["argkinds"].append(draw(st.sampled_from(["nd", "nd0", "pyscalar", "npscalar", "factory"])))
            else:
                step["argkinds"].append(draw(st.sampled_from(["nd"] * 12 + ["factory", "factory_name"])))
        # size twins
        for name, v in case["sizes"].items():
            if isinstance(v, list):
                step["size_kinds"][name] = draw(st.sampled_from(["plain", "tuple", "array"]))
            else:
                step["size_kinds"][name] = draw(st.sampled_from(["plain", "npint", "npint", "float", "bool", "npfloat"])) if draw(st.integers(0, 3)) == 0 else "plain"
        variant = draw(st.sampled_from(["plain"] * 8 + ["graph", "graph", "solve_axes", "solve_shapes", "matches", "adapter", "adapter", "syntax", "rank", "size", "semantic", "factory_raise", "factory_badshape"]))
        if variant == "graph":
            step["graph"] = True
        elif variant in ("solve_axes", "solve_shapes", "matches"):
            step["entry"] = variant
        elif variant == "adapter":
            if case["op"] in G.REDUCE:
                step["entry"] = "adapt_reduce"
                step["extra_kwargs"] = {"scale": [1, draw(st.sampled_from(["plain", "float", "bool"]))]} if draw(st.booleans()) else {}
            elif case["op"] in G.ELEMENTWISE_BIN + G.ELEMENTWISE_NARY and len(case["ins"]) == 2:
                step["entry"] = "adapt_elementwise"
                step["extra_kwargs"] = {"bias": [1, draw(st.sampled_from(["plain", "float", "bool"]))]} if draw(st.booleans()) else {}
        elif variant == "syntax":
            step["desc_override"] = case["desc"] + draw(st.sampled_from([" )", " [", " ->", " $"]))
        elif variant == "rank" and case["ins"]:
            j = draw(st.integers(0, len(case["ins"]) - 1))
            shp = list(X.shape_of(X.expand(case["ins"][j]), case["env"]))
            step["corrupt_shape"] = {str(j): shp + [2]}
        elif variant == "size" and case["ins"]:
            j = draw(st.integers(0, len(case["ins"]) - 1))
            shp = list(X.shape_of(X.expand(case["ins"][j]), case["env"]))
            if shp:
                shp[draw(st.integers(0, len(shp) - 1))] += 1
                step["corrupt_shape"] = {str(j): shp}
        elif variant == "semantic":
            step["desc_override"] = "[" + case["desc"].split("->")[0].strip().replace(",", "],[") + "] -> " + (case["desc"].split("->")[1] if "->" in case["desc"] else "")
        elif variant in ("factory_raise", "factory_badshape") and case["ins"]:
            j = draw(st.integers(0, len(case["ins"]) - 1))
            step["argkinds"][j] = variant
        steps.append(step)
    for _ in range(depth):
        steps.append({"kind": "exit"})
    if draw(st.integers(0, 2)) == 0:
        # factory churn: the same call with short-lived factories of different signatures in one argument position
        # (objects die between steps, so addresses are re-used; anything remembered per object identity goes stale)
        cands = [s_ for s_ in steps if s_["kind"] == "call" and s_["entry"] == s_["case"]["op"] and not s_.get("desc_override") and not s_.get("corrupt_shape") and s_["argkinds"]]
        if cands:
            src = cands[draw(st.integers(0, len(cands) - 1))]
            j = draw(st.integers(0, len(src["argkinds"]) - 1))
            order = draw(st.permutations(["factory", "factory_name", "factory_kwargs"]))
            block = []
            for i in range(draw(st.integers(3, 6))):
                c = copy.deepcopy(src)
                c["graph"] = False
                c["argkinds"] = ["nd" if k.startswith("factory") else k for k in c["argkinds"]]
                c["argkinds"][j] = order[i % 3]
                block.append(c)
            pos = draw(st.integers(0, len(steps)))
            steps = steps[:pos] + block + steps[pos:]
    if draw(st.integers(0, 2)) == 0:
        # re-entrant nesting "with A: with B: with A: ..." around calls that show the active backend in their text
        a, b = draw(st.permutations(BACKENDS))[:2]
        probe = None
        for s_ in steps:
            if s_["kind"] == "call" and s_["case"].get("backend") is None and s_["entry"] == s_["case"]["op"] and not s_.get("desc_override") and not s_.get("corrupt_shape"):
                probe = copy.deepcopy(s_)
                break
        if probe is not None:
            probe["graph"] = True
            probe["argkinds"] = ["nd"] * len(probe["argkinds"])
            probe["size_kinds"] = {}
            block = [{"kind": "enter", "backend": a}, {"kind": "enter", "backend": b}, {"kind": "enter", "backend": a}, probe, {"kind": "exit"}, probe, {"kind": "exit"}, probe, {"kind": "exit"}, probe]
            pos = draw(st.integers(0, len(steps)))
            # only insert at with-depth 0
            d = 0
            ok_pos = []
            for i, s_ in enumerate(steps + [None]):
                if d == 0:
                    ok_pos.append(i)
                if s_ is not None:
                    d += 1 if s_["kind"] == "enter" else (-1 if s_["kind"] == "exit" else 0)
            pos = ok_pos[pos % len(ok_pos)]
            steps = steps[:pos] + copy.deepcopy(block) + steps[pos:]
    return {"steps": steps}


class Zygote:
    def __init__(self):
        env = dict(os.environ)
        self.p = subprocess.Popen([sys.executable, "-m", "einxverif.c06_server"], stdin=subprocess.PIPE, stdout=subprocess.PIPE, stderr=subprocess.DEVNULL, text=True, cwd=common.VERIF, env=env)

    def request(self, req):
        self.p.stdin.write(common.jdump(req) + "\n")
        self.p.stdin.flush()
        line = self.p.stdout.readline()
        if not line:
            raise common.HarnessError("C06 zygote died")
        res = json.loads(line)
        if "error" in res:
            raise common.HarnessError("C06 zygote child error: " + res["error"])
        return res

    def close(self):
        try:
            self.p.stdin.write("quit\n")
            self.p.stdin.flush()
            self.p.wait(timeout=10)
        except Exception:  # noqa: BLE001
            self.p.kill()


_Z = {}
_FRESH = {}


def zygote():
    if "z" not in _Z:
        _Z["z"] = Zygote()
    return _Z["z"]


def step_key(step):
    s = {k: v for k, v in step.items() if k != "pool"}
    return common.sha12(s)


def twin_key(step):
    """Key under which hash-equal twins coincide: entry + description + shapes (kinds stripped)."""
    if step["kind"] != "call":
        return None
    c = step["case"]
    return common.sha12([step["entry"], step.get("desc_override") or c["desc"], [list(X.shape_of(X.expand(e), c["env"])) for e in c["ins"]], step.get("graph"), sorted(c["sizes"])])


def same_outcome(a, b):
    if a[0] != b[0]:
        return False
    if a[0] in ("exc", "code", "ok_bool", "entered", "exited", "noop"):
        return a == b
    if a[0] == "ok_dict":
        return a[1] == b[1]
    if len(a[1]) != len(b[1]):
        return False
    for x, y in zip(a[1], b[1]):
        if x["shape"] != y["shape"] or (x["kind"] in "biu") != (y["kind"] in "biu"):
            return False
        if x["kind"] in "biu":
            if x["values"] != y["values"]:
                return False
        elif not np.allclose(np.asarray(x["values"], dtype=np.float64), np.asarray(y["values"], dtype=np.float64), rtol=1e-8, atol=1e-10, equal_nan=True):
            return False
    return True


def evaluate(rc, stats):
    steps = rc["steps"]
    z = zygote()
    res = z.request({"kind": "history", "steps": steps})
    outs = res["outcomes"]
    stack = []
    seen_keys, seen_twins = set(), set()
    had_hit = False
    for i, (step, out) in enumerate(zip(steps, outs)):
        if step["kind"] == "enter":
            stack.append(step["backend"])
            continue
        if step["kind"] == "exit":
            if stack:
                stack.pop()
            continue
        k = step_key(step)
        tk = twin_key(step)
        if k in seen_keys:
            stats.count("steps:exact_repeat")
            had_hit = True
        elif tk in seen_twins:
            stats.count("steps:hash_equal_twin")
            had_hit = True
        seen_keys.add(k)
        seen_twins.add(tk)
        fk = k + "|" + ",".join(stack)
        if fk not in _FRESH:
            _FRESH[fk] = z.request({"kind": "single", "step": step, "with": list(stack)})["outcome"]
            stats.count("fresh_calls")
        fresh = _FRESH[fk]
        stats.count("steps:call")
        stats.count("outcome:" + out[0])
        if not same_outcome(out, fresh):
            c = step["case"]
            desc = step.get("desc_override") or c["desc"]
            earlier = [s for s in steps[:i] if s["kind"] == "call" and twin_key(s) == tk]
            kind = "after_twin" if earlier and step_key(earlier[-1]) != k else ("after_same" if earlier else "after_other")
            return [
                Violation(
                    f"C06|differs|{kind}|{fresh[0]}->{out[0]}",
                    f"step {i}: {step['entry']}({desc!r}, argkinds={step['argkinds']}, size_kinds={step['size_kinds']}, extra={step.get('extra_kwargs')}, graph={step.get('graph')}, with={stack}) "
                    f"gives {_short(out)} after the history but {_short(fresh)} in a fresh interpreter",
                )
            ]
    if had_hit:
        stats.nt([step_key(s) if s["kind"] == "call" else s["kind"] for s in steps])
    stats.sample({"steps": [(s["entry"] + ":" + (s.get("desc_override") or s["case"]["desc"])) if s["kind"] == "call" else s["kind"] for s in steps][:10]}, cap=3)
    final = res["final"]
    if final["use_stack"]:
        return [Violation("C06|leak|use_stack", f"after the history (all with-blocks left) the registry's with-stack is {final['use_stack']}")]
    if final["dependon_depth"]:
        return [Violation("C06|leak|dependon", f"after the history the tracing dependency stack has depth {final['dependon_depth']}")]
    return []


def _short(o):
    if o[0] == "ok":
        return ["ok", [(x["shape"], x["values"][:4]) for x in o[1]]]
    if o[0] == "code":
        return ["code", o[1][:200]]
    return o


def replay_case(case):
    try:
        return evaluate(case, common.Stats())
    finally:
        if "z" in _Z:
            _Z.pop("z").close()


def make_strategy(tier, k):
    return history_case(tier)


def worker(k, n, tier, seed, known_buckets, extra):
    try:
        return standard_worker(PROP, make_strategy(tier, k), evaluate, k, n, tier, seed, known_buckets, quick_examples=36, thorough_examples=600, shrink_quick=60, shrink_thorough=300)
    finally:
        if "z" in _Z:
            _Z.pop("z").close()


def run(tier, seed, known_buckets):
    # fork()-heavy: more than ~6 concurrent zygotes only produce copy-on-write page-fault contention in this VM
    frags = common.run_workers(PROP, 6, tier, seed, known_buckets, None)
    return common.merge_fragments(frags)

"""C09 -- arguments are never modified (except the documented in-place *_at target)."""

import copy
import warnings

import numpy as np
from hypothesis import strategies as st

from .. import common, gen as G, loopsem as L, expr as X, loopvmap as LV
from ..common import Violation
from . import c01
from ._base import standard_run, standard_worker

PROP = "C09"
RULE = (
    "Generated calls of every operation family (plus solve_shapes/solve_axes/matches and graph=True requests on the same "
    "descriptions) are executed with every tensor argument placed in a drawn memory layout: C-contiguous, transposed "
    "(Fortran) view, strided slice of a larger buffer, read-only np.broadcast_to view, explicit writeable=False, and with "
    "size keywords passed as ints, lists or int arrays. Before/after snapshots of the base buffer bytes, shape, strides, dtype "
    "and flags of every argument and of every size object must be identical, except the first tensor of set_at/add_at/"
    "subtract_at; a read-only non-target argument must not make a call fail that succeeds with writable arguments. "
    "Non-trivial: some argument is a view or read-only, or the call is an *_at call; distinct by (canonical call, layouts, mode)."
)
ASSUMPTIONS = c01.ASSUMPTIONS + [
    "read-only *_at targets are not generated (the property is silent about them); a result aliasing an input is allowed",
    "values are not compared here (C01 does); broadcast views repeat values, which is irrelevant to this property",
]

LAYOUTS = ["C", "F", "strided", "broadcast", "readonly", "C"]
MODES = ["call", "call", "call", "graph", "solve_shapes", "solve_axes", "matches"]


@st.composite
def c09_case(draw, tier="quick", k=0):
    # "simple" calls (no flattening / permutation) hand the caller's buffers to the backend functions
    # unchanged, which is where an in-place hazard (out= aliasing, in-place sort/put) would bite
    r = draw(st.integers(0, 9))
    prone = False
    if r == 0:
        # n-ary scalar operations with >=3 aligned operands (third positional argument of a ufunc is out=)
        base = draw(G.call_case(ops=G.ELEMENTWISE_NARY, quick=True, simple=True, min_inputs=3))
    elif r <= 2:
        # operations whose numpy lowering has an in-place variant (ndarray.sort, put, ufunc.at, out=): contiguous writable
        # buffers (a view of the caller's array survives reshapes) and read-only buffers (a write raises)
        prone = True
        base = draw(G.call_case(ops=G.PRESERVE + G.UPDATE + ["get_at"] + G.ARGFIND, quick=True, simple=draw(st.integers(0, 3)) == 0, backends=G.BACKENDS))
    elif r == 3:
        # indexed updates in their plainest forms (few coordinates, target without vectorised axes): the coordinate tensors
        # reach the index arithmetic of the back end unchanged
        prone = True
        base = draw(G.call_case(ops=G.UPDATE, quick=True, backends=G.BACKENDS, flags={"coord1": draw(st.booleans()), "k1": True, "tgt_novec": draw(st.booleans()), "no_extras": draw(st.booleans())}))
    else:
        base = draw(G.stratified_case(k, quick=(tier == "quick"), simple=draw(st.booleans()), backends=G.BACKENDS + [LV.NAME]))
    layouts = [draw(st.sampled_from(["C", "C", "readonly", "readonly", "F"] if prone else LAYOUTS)) for _ in base["ins"]]
    for i, d in enumerate(base["data"]):
        if d["kind"] == "coord" and layouts[i] == "broadcast":
            layouts[i] = "readonly"  # a broadcast view would change coordinate values (range!)
    mode = draw(st.sampled_from(MODES))
    size_kind = {k: draw(st.sampled_from(["plain", "nparray", "nparray32", "npint", "list", "list_np"])) for k in list(base["sizes"]) + ["shift"]}
    # negative coordinates (numpy's wrap-around equivalents of the drawn ones): whatever the call makes of them, the
    # coordinate tensors must come back unchanged
    neg = prone and draw(st.booleans())
    return {"base": base, "layouts": layouts, "mode": mode, "size_kind": size_kind, "neg_coords": neg}


def layout_array(a, layout):
    """Return (array as passed, owner buffer) in the requested layout with equal values where possible."""
    a = np.asarray(a)
    if layout == "C" or a.ndim == 0:
        x = np.array(a, copy=True, order="C")
        return x, x
    if layout == "F":
        buf = np.array(a.transpose(), copy=True, order="C")
        return buf.transpose(), buf
    if layout == "strided":
        buf = np.zeros(tuple(2 * s + 1 for s in a.shape), dtype=a.dtype)
        view = buf[tuple(slice(1, 2 * s + 1, 2) for s in a.shape)]
        view[...] = a
        return view, buf
    if layout == "broadcast":
        # collapse the first axis with extent > 1 to a broadcast (stride 0, read-only) axis
        ax = next((i for i, s in enumerate(a.shape) if s > 1), None)
        if ax is None:
            x = np.array(a, copy=True)
            x.flags.writeable = False
            return x, x
        buf = np.array(np.take(a, [0], axis=ax), copy=True)
        return np.broadcast_to(buf, a.shape), buf
    if layout == "readonly":
        x = np.array(a, copy=True)
        x.flags.writeable = False
        return x, x
    raise ValueError(layout)


def snapshot(x, owner):
    return {
        "bytes": owner.tobytes(),
        "shape": tuple(x.shape),
        "strides": tuple(x.strides),
        "dtype": str(x.dtype),
        "writeable": bool(x.flags.writeable),
        "owner_shape": tuple(owner.shape),
        "c_contig": bool(x.flags.c_contiguous),
    }


def make_size(v, kind):
    if isinstance(v, list):
        if kind == "nparray":
            return np.asarray(v, dtype=np.int64)
        if kind == "nparray32":
            return np.asarray(v, dtype=np.int32)
        if kind == "list_np":
            return [np.asarray(i) if j % 2 == 0 else int(i) for j, i in enumerate(v)]
        if kind == "list":
            return list(v)
        return tuple(v) if kind == "npint" else list(v)
    if kind == "npint":
        return np.int64(v)
    if kind == "nparray":
        return np.asarray(v)
    if kind == "nparray32":
        return np.asarray(v, dtype=np.int32)
    return int(v)


def size_snapshot(v):
    if isinstance(v, np.ndarray):
        return ("nd", v.tobytes(), tuple(v.shape), tuple(v.strides), str(v.dtype), bool(v.flags.writeable))
    if isinstance(v, (list, tuple)):
        return (type(v).__name__, tuple(size_snapshot(i) for i in v), tuple(id(i) for i in v))
    return (type(v).__name__, repr(v))


def evaluate(rc, stats):
    import einx

    base, layouts, mode = rc["base"], rc["layouts"], rc["mode"]
    op = base["op"]
    is_update = op in G.UPDATE
    arrays = G.build_arrays(base)
    if rc.get("neg_coords"):
        for i, d in enumerate(base["data"]):
            if d["kind"] == "coord" and len(d["hi"]) == 1:
                arrays[i] = arrays[i] - int(d["hi"][0])
        stats.count("negative_coordinates")
    passed, owners = [], []
    for i, (a, lay) in enumerate(zip(arrays, layouts)):
        if is_update and i == 0 and lay in ("broadcast", "readonly"):
            lay = "strided"
        x, o = layout_array(a, lay)
        passed.append(x)
        owners.append(o)
        stats.count("layout:" + lay)
    sizes = {k: make_size(v, rc["size_kind"].get(k, "plain")) for k, v in base["sizes"].items()}
    opts = copy.deepcopy(base.get("opts") or {})
    if "shift" in opts:
        opts["shift"] = make_size(opts["shift"], rc["size_kind"].get("shift", "plain"))
    stats.count("mode:" + mode)
    stats.count("family:" + G.family_of(op))

    LV.ensure(base)
    before = [snapshot(x, o) for x, o in zip(passed, owners)]
    sbefore = {k: size_snapshot(v) for k, v in sizes.items()}
    obefore = {k: size_snapshot(v) for k, v in opts.items()}
    kwargs = dict(sizes)
    outcome = None
    exc = None
    try:
        with warnings.catch_warnings():
            warnings.simplefilter("ignore")
            if mode in ("call", "graph"):
                kw = dict(kwargs, **opts)
                if base.get("backend") is not None:
                    kw["backend"] = base["backend"]
                if mode == "graph":
                    kw["graph"] = True
                getattr(einx, op)(base["desc"], *passed, **kw)
            else:
                desc = X.p_desc(base["ins"])
                if any(X.has_node(e, "br") for e in base["ins"]):
                    # solve_* take plain expression lists; brackets are allowed there as well
                    pass
                getattr(einx, mode)(desc, *passed, **kwargs)
        outcome = "ok"
    except einx.errors.OperationNotSupportedError:
        outcome = "unsupported"
    except Exception as e:  # noqa: BLE001
        outcome = "raised"
        exc = e
    stats.count("outcome:" + outcome)
    nontriv = is_update or any(l != "C" for l in layouts)
    if nontriv:
        stats.nt([G.canon_key(base), layouts, mode])
    stats.sample({"op": op, "desc": base["desc"], "layouts": layouts, "mode": mode, "sizes": {k: repr(v) for k, v in sizes.items()}})

    viols = []
    after = [snapshot(x, o) for x, o in zip(passed, owners)]
    for i, (b, a) in enumerate(zip(before, after)):
        keys = list(b.keys())
        if is_update and i == 0 and mode == "call":
            keys = [k for k in keys if k != "bytes"]
        diff = [k for k in keys if b[k] != a[k]]
        if diff:
            viols.append(
                Violation(
                    f"C09|modified|{G.family_of(op)}|arg{min(i, 3)}|{'+'.join(diff)}",
                    f"{mode}: {op}({base['desc']!r}) changed {diff} of tensor argument #{i} (layout {layouts[i]}, shape {before[i]['shape']}); backend={base.get('backend')}",
                )
            )
    for k in sizes:
        if size_snapshot(sizes[k]) != sbefore[k]:
            viols.append(Violation(f"C09|modified_size|{G.family_of(op)}", f"{mode}: {op}({base['desc']!r}) changed size object {k}={sbefore[k]!r} -> {size_snapshot(sizes[k])!r}"))
    for k in opts:
        if size_snapshot(opts[k]) != obefore[k]:
            viols.append(Violation(f"C09|modified_option|{G.family_of(op)}", f"{mode}: {op}({base['desc']!r}) changed option {k}"))
    if viols:
        return viols

    # read-only arguments must not make the call fail
    if outcome == "raised" and any(not x.flags.writeable for x in passed):
        plain = [np.array(a, copy=True) for a in arrays]
        try:
            with warnings.catch_warnings():
                warnings.simplefilter("ignore")
                if mode in ("call", "graph"):
                    kw = dict(base["sizes"], **(base.get("opts") or {}))
                    if base.get("backend") is not None:
                        kw["backend"] = base["backend"]
                    if mode == "graph":
                        kw["graph"] = True
                    getattr(einx, op)(base["desc"], *plain, **kw)
                else:
                    getattr(einx, mode)(X.p_desc(base["ins"]), *plain, **base["sizes"])
            plain_ok = True
        except Exception:  # noqa: BLE001
            plain_ok = False
        if plain_ok:
            cause = exc.__cause__ if isinstance(exc, einx.errors.CallOperationError) and exc.__cause__ else exc
            return [
                Violation(
                    common.exc_bucket(PROP, cause, "readonly_arg"),
                    f"{mode}: {op}({base['desc']!r}) succeeds with writable arguments but raises {type(exc).__name__} with layouts {layouts}: {str(exc)[-300:]}",
                )
            ]
        stats.count("outcome:raised_also_when_writable")
    return []


def replay_case(case):
    return evaluate(case, common.Stats())


def make_strategy(tier, k):
    return c09_case(tier, k)


def worker(k, n, tier, seed, known_buckets, extra):
    return standard_worker(PROP, make_strategy(tier, k), evaluate, k, n, tier, seed, known_buckets, quick_examples=2500, thorough_examples=100000)


def run(tier, seed, known_buckets):
    return standard_run(PROP, tier, seed, known_buckets)

"""C10 -- concurrent use from several threads behaves like some serial order."""

import itertools
import threading
import warnings

import numpy as np
from hypothesis import strategies as st

from .. import common, sched
from ..common import Violation
from ._base import standard_run, standard_worker

PROP = "C10"
RULE = (
    "Hypothesis draws 2-3 thread programs of 1-5 steps and a schedule (list of choices: which ready thread runs next at each "
    "scheduling point; pre-emption possible at every source line of einx's frontend/backend.py, frontend/api.py, "
    "util/lru_cache.py and tracer/graph.py, threads run under sys.settrace with a cooperative replacement of the registry "
    "lock). (a) synthetic: fresh BackendRegistry objects with synthetic backends; steps register / get by name / get by "
    "tensors / get by object / enter / exit (well nested per thread). (b) real: the global einx registry; steps enter/exit a "
    "'with backend:' block and einx calls (value and graph=True requests, first-time compilation of the same new signature "
    "in several threads). Oracle: serialisability - some interleaving of the threads' steps (program order kept) run against a "
    "sequential reference model (name table, global with-stack, lookup chain, call outcome as function of the active backend) "
    "reproduces every observed step outcome (incl. failures) and the final registry state. Non-trivial: a schedule with a "
    "pre-emption while two threads are inside traced einx code; distinct by (programs, compressed schedule)."
)
ASSUMPTIONS = [
    "interleavings are sampled at source-line granularity under an owned schedule, not enumerated; pre-emption inside C code is not modelled",
    "liveness and free-threaded execution are out of scope; a scheduler stall is reported as inconclusive, never as a violation",
    "interleaved with-blocks of different threads may fail at exit by design (the stack is global); the serial model fails the same way",
]


class PlainArray:
    pass


class T1:
    pass


class T2:
    pass


CLASSES = {"array": PlainArray, "t1": T1, "t2": T2}
BACKEND_SPECS = {
    # name: (priority, accepted classes)
    "numpy": (-1, ("array", "int")),
    "numpy.alt": (-5, ("array", "int")),
    "fw1": (0, ("t1",)),
    "fw1.hi": (3, ("t1",)),
    "fw2": (0, ("t2",)),
}


def traced_files():
    import einx._src.frontend.api as api
    import einx._src.frontend.backend as backend
    import einx._src.tracer.graph as graph
    import einx._src.util.lru_cache as lru

    import einx._src.tracer.compiler.python as pyc

    return [backend.__file__, api.__file__, lru.__file__, graph.__file__, pyc.__file__]


# ------------------------------------------------------------------ strategies


@st.composite
def program(draw, kind, pre=()):
    steps = []
    # tensors of a framework exist only once that framework is registered: by-type lookups use pre-registered frameworks,
    # register steps add the other ones (observed through get_name and the final name table)
    lookup_kinds = ["array", "int"] + [{"fw1": "t1", "fw2": "t2"}[p] for p in pre if p in ("fw1", "fw2")]
    registrable = [n for n in ["fw1", "fw2", "numpy.alt"] if n not in pre]
    n = draw(st.integers(1, 5))
    open_blocks = []
    for _ in range(n):
        r = draw(st.integers(0, 9))
        if kind == "synthetic":
            if r <= 1:
                # one backend per framework: the property's quantifier has all backends of a framework registered in one step
                # (registering a higher-priority sibling after lookups of that tensor type is outside its domain)
                steps.append(["register", draw(st.sampled_from(registrable))] if registrable else ["get_name", "numpy"])
            elif r <= 3:
                steps.append(["get_name", draw(st.sampled_from(["numpy", "fw1", "numpy.alt", "fw2", "nope"]))])
            elif r <= 5:
                steps.append(["get_tensors", draw(st.lists(st.sampled_from(lookup_kinds), min_size=1, max_size=2))])
            elif r <= 7 and len(open_blocks) < 2:
                b = draw(st.sampled_from(["numpy", "numpy.alt"]))
                steps.append(["enter", b])
                open_blocks.append(b)
            elif open_blocks:
                steps.append(["exit", open_blocks.pop()])
            else:
                steps.append(["get_tensors", ["array"]])
        else:
            if r <= 2 and len(open_blocks) < 2:
                b = draw(st.sampled_from(["numpy.numpylike", "numpy.einsum", "numpy"]))
                steps.append(["enter", b])
                open_blocks.append(b)
            elif r <= 4 and open_blocks:
                steps.append(["exit", open_blocks.pop()])
            elif r <= 7:
                steps.append(["call_graph", draw(st.integers(0, 2))])
            else:
                steps.append(["call_value", draw(st.integers(0, 2))])
    while open_blocks:
        steps.append(["exit", open_blocks.pop()])
    return steps


@st.composite
def c10_case(draw, tier="quick"):
    kind = draw(st.sampled_from(["synthetic", "synthetic", "synthetic", "real"]))
    nthreads = draw(st.sampled_from([2, 2, 3]))
    pre = draw(st.lists(st.sampled_from(["fw1", "fw2", "numpy.alt"]), max_size=2, unique=True)) if kind == "synthetic" else []
    programs = [draw(program(kind, tuple(pre))) for _ in range(nthreads)]
    # schedule: mostly "stay" with bursts of switches, so that pre-emptions land inside short critical sections
    nch = draw(st.integers(0, 120))
    choices = [draw(st.sampled_from([0, 0, 0, 0, 1, 2])) for _ in range(nch)]
    return {"kind": kind, "programs": programs, "choices": choices, "pre": pre, "uid": draw(st.integers(0, 10**9))}


# ------------------------------------------------------------------ sequential reference model


class SeqModel:
    def __init__(self, kind, pre):
        self.kind = kind
        self.names = ["numpy"] + list(pre) if kind == "synthetic" else ["numpy", "numpy.numpylike", "numpy.einsum"]
        self.stack = []

    def clone(self):
        m = SeqModel.__new__(SeqModel)
        m.kind = self.kind
        m.names = list(self.names)
        m.stack = list(self.stack)
        return m

    def step(self, s):
        op = s[0]
        if op == "register":
            if s[1] not in self.names:
                self.names.append(s[1])
            return ["none"]
        if op == "get_name":
            return ["backend", s[1]] if s[1] in self.names else ["exc", "ValueError"]
        if op == "get_tensors":
            if self.stack:
                return ["backend", self.stack[-1]]
            kinds = s[1]
            if all(k == "int" for k in kinds):
                return ["backend", "numpy"]
            cands = [n for n in self.names if any(k in BACKEND_SPECS[n][1] and k != "int" for k in kinds)]
            if len(cands) > 1:
                m = max(BACKEND_SPECS[n][0] for n in cands)
                cands = [n for n in cands if BACKEND_SPECS[n][0] == m]
            return ["backend", cands[0]] if len(cands) == 1 else ["exc", "BackendResolutionError"]
        if op == "enter":
            self.stack.append(s[1])
            return ["none"]
        if op == "exit":
            if not self.stack:
                return ["exc", "IndexError"]
            if self.stack[-1] != s[1]:
                return ["exc", "AssertionError"]
            self.stack.pop()
            return ["none"]
        if op in ("call_graph", "call_value"):
            active = self.stack[-1] if self.stack else "numpy"
            spec = CALLS[s[1]]
            if active == "numpy.einsum" and spec["op"] not in ("sum", "id", "multiply", "dot"):
                return ["exc", "OperationNotSupportedError"]
            if op == "call_graph":
                uses_einsum = active == "numpy.einsum" or (active == "numpy" and spec["op"] == "dot")
                return ["text", "einsum" if uses_einsum else "plain"]
            return ["value"]
        raise ValueError(op)


CALLS = [
    {"op": "sum", "desc": "a [b] c -> c a"},
    {"op": "add", "desc": "a b, b -> b a"},
    {"op": "min", "desc": "a [b] -> a"},
]


def serialisable(kind, pre, programs, observed, final_stack, final_names):
    """Is there an interleaving of the programs whose sequential execution yields `observed`?"""
    n = len(programs)
    lens = [len(p) for p in programs]
    seen = set()

    def rec(model, pos):
        key = (tuple(pos), tuple(model.stack), tuple(sorted(model.names)))
        if key in seen:
            return False
        seen.add(key)
        if all(pos[i] == lens[i] for i in range(n)):
            if model.stack != final_stack:
                return False
            if final_names is not None and sorted(model.names) != sorted(final_names):
                return False
            return True
        for i in range(n):
            if pos[i] < lens[i]:
                m2 = model.clone()
                out = m2.step(programs[i][pos[i]])
                if out == observed[i][pos[i]]:
                    pos2 = list(pos)
                    pos2[i] += 1
                    if rec(m2, pos2):
                        return True
        return False

    return rec(SeqModel(kind, pre), [0] * n)


# ------------------------------------------------------------------ execution


def run_synthetic(rc, stats):
    from einx._src.frontend.backend import Backend, BackendRegistry
    from einx.errors import BackendResolutionError

    s = sched.Scheduler(rc["choices"], traced_files())
    reg = BackendRegistry()
    orig_lock = reg.use_lock
    reg.use_lock = sched.CoopLock(s, reentrant=not isinstance(orig_lock, type(threading.Lock())))
    objs = {}

    def mk(name):
        prio, kinds = BACKEND_SPECS[name]
        classes = tuple(CLASSES[k] for k in kinds if k in CLASSES)

        def is_supported_tensor(t, classes=classes):
            return isinstance(t, classes)

        return Backend(ops={}, name=name, priority=prio, optimizations=[], compiler=None, is_supported_tensor=is_supported_tensor, get_shape=lambda t: ())

    for name in ["numpy"] + rc["pre"]:
        objs[name] = mk(name)
        reg.register(objs[name])
    for name in BACKEND_SPECS:
        objs.setdefault(name, mk(name))

    observed = [[None] * len(p) for p in rc["programs"]]

    def tensor(k):
        return 3 if k == "int" else CLASSES[k]()

    def make_prog(i, steps):
        def prog():
            for j, st_ in enumerate(steps):
                op = st_[0]
                try:
                    if op == "register":
                        reg.register(objs[st_[1]])
                        out = ["none"]
                    elif op == "get_name":
                        out = ["backend", reg.get(st_[1], []).name]
                    elif op == "get_tensors":
                        out = ["backend", reg.get(None, [tensor(k) for k in st_[1]]).name]
                    elif op == "enter":
                        reg.enter(objs[st_[1]])
                        out = ["none"]
                    elif op == "exit":
                        reg.exit(objs[st_[1]])
                        out = ["none"]
                    else:
                        raise ValueError(op)
                except sched.Stalled:
                    raise
                except BackendResolutionError:
                    out = ["exc", "BackendResolutionError"]
                except Exception as e:  # noqa: BLE001
                    out = ["exc", type(e).__name__]
                observed[i][j] = out
            return True

        return prog

    results = s.run([make_prog(i, p) for i, p in enumerate(rc["programs"])])
    final_stack = [b.name for b in reg.state.use_stack]
    final_names = list(reg.state.name_to_backend.keys())
    return s, results, observed, final_stack, final_names


def run_real(rc, stats):
    import einx
    from einx._src.frontend.backend import registry

    # tracer/graph.py is hot during tracing: only its thread-local dependency stack is a shared-state candidate
    s = sched.Scheduler(rc["choices"], traced_files(), max_points=600000, only_functions={"graph.py": {"__enter__", "__exit__", "depend_on", "get_additional_dependencies"}, "__init__.py": {"_get_expression_for", "compile"}})
    orig_lock = registry.use_lock
    uid = rc["uid"]
    data = {0: [np.arange(24.0).reshape(2, 3, 4)], 1: [np.arange(6.0).reshape(2, 3), np.arange(3.0)], 2: [np.arange(6.0).reshape(2, 3) + 1]}
    expected_val = {0: np.sum(data[0][0], axis=1).T, 1: (data[1][0] + data[1][1]).T, 2: np.min(data[2][0], axis=1)}

    def desc_of(k):
        # unique axis names per example so that every example compiles for the first time
        d = CALLS[k]["desc"]
        for ax in "abc":
            d = d.replace(ax, f"{ax}{uid}_")
        return d

    # make sure backends exist before threads start (lazy creation is exercised by C11)
    for b in ("numpy", "numpy.numpylike", "numpy.einsum"):
        einx.backend.get(b)
    registry.use_lock = sched.CoopLock(s, reentrant=not isinstance(orig_lock, type(threading.Lock())))
    observed = [[None] * len(p) for p in rc["programs"]]
    entered = [[] for _ in rc["programs"]]

    def make_prog(i, steps):
        def prog():
            for j, st_ in enumerate(steps):
                op = st_[0]
                try:
                    with warnings.catch_warnings():
                        warnings.simplefilter("ignore")
                        if op == "enter":
                            b = einx.backend.get(st_[1])
                            b.__enter__()
                            out = ["none"]
                        elif op == "exit":
                            einx.backend.get(st_[1]).__exit__(None, None, None)
                            out = ["none"]
                        elif op == "call_graph":
                            k = st_[1]
                            text = getattr(einx, CALLS[k]["op"])(desc_of(k), *data[k], graph=True)
                            out = ["text", "einsum" if "einsum" in text else "plain"]
                        elif op == "call_value":
                            k = st_[1]
                            r = getattr(einx, CALLS[k]["op"])(desc_of(k), *data[k])
                            out = ["value"] if np.allclose(np.asarray(r), expected_val[k]) else ["wrong_value"]
                        else:
                            raise ValueError(op)
                except sched.Stalled:
                    raise
                except Exception as e:  # noqa: BLE001
                    out = ["exc", type(e).__name__]
                observed[i][j] = out
            return True

        return prog

    try:
        results = s.run([make_prog(i, p) for i, p in enumerate(rc["programs"])])
        final_stack = [b.name for b in registry.state.use_stack]
    finally:
        registry.use_lock = orig_lock
        registry.state.use_stack.clear()
    return s, results, observed, final_stack, None


def evaluate(rc, stats):
    kind = rc["kind"]
    s, results, observed, final_stack, final_names = (run_synthetic if kind == "synthetic" else run_real)(rc, stats)
    stats.count("kind:" + kind)
    stats.count("scheduling_points", s.points)
    stats.count("switches", s.switches)
    if s.stalled or any(r is None or r[0] == "stalled" for r in results):
        stats.count("inconclusive:stalled")
        return []
    for r in results:
        if r[0] == "exc":
            raise common.HarnessError(f"thread program raised {type(r[1]).__name__}: {r[1]}")
    if s.overlap > 0:
        stats.count("feat:preemption_with_two_threads_inside")
        stats.nt([kind, rc["programs"], [c for c in rc["choices"] if c][:40], s.switches])
    stats.sample({"kind": kind, "programs": rc["programs"], "switches": s.switches, "points": s.points, "observed": observed}, cap=4)
    if serialisable(kind, rc["pre"], rc["programs"], observed, final_stack, final_names):
        return []
    exc = sorted({o[1] for obs in observed for o in obs if o and o[0] == "exc"})
    return [
        Violation(
            f"C10|not_serialisable|{kind}|{'+'.join(exc) or 'state'}",
            f"{kind} registry: programs {rc['programs']} (pre-registered {rc['pre']}) under the drawn schedule ({s.switches} switches) gave outcomes {observed}, final with-stack {final_stack}"
            + (f", names {final_names}" if final_names is not None else "")
            + ": no sequential order of the steps reproduces this",
        )
    ]


def replay_case(case):
    return evaluate(case, common.Stats())


def make_strategy(tier, k):
    return c10_case(tier)


def worker(k, n, tier, seed, known_buckets, extra):
    return standard_worker(PROP, make_strategy(tier, k), evaluate, k, n, tier, seed, known_buckets, quick_examples=2400, thorough_examples=150000, shrink_quick=60, shrink_thorough=300)


def run(tier, seed, known_buckets):
    return standard_run(PROP, tier, seed, known_buckets)

"""C14 -- indexed updates apply every update exactly once and touch nothing else."""

import numpy as np

from .. import common, gen as G, loopsem as L, expr as X
from ..common import Violation
from . import c01
from ._base import standard_run, standard_worker

PROP = "C14"
RULE = (
    "Hypothesis draws set_at/add_at/subtract_at calls: target with scattered/flattened bracketed axes and extra "
    "vectorised axes, 1-3 coordinate tensors (bracketed coordinate axis anywhere or absent), vectorised axes present in "
    "coordinates only / updates only / target only, updates missing axes, coordinate values with controlled duplicate "
    "rate, backends None/numpy/numpy.numpylike; the result is compared with an explicit loop over all un-bracketed "
    "axes of coordinates and updates (exact accumulation for add/subtract; any competing value for set), then get_at "
    "with the same coordinates must read back an admissible value. Non-trivial: a vectorised axis not shared by all of "
    "target/coordinates/updates, or duplicate coordinates; distinct by canonicalised call."
)
ASSUMPTIONS = c01.ASSUMPTIONS + [
    "output-only vectorised axes that also occur in coordinates/updates are not generated (the statement matches updates to target slices)",
    "coordinates are in range and non-negative; integer data so accumulation is exact",
]


def _unbr_sets(case):
    def keys(e):
        return {X.leaf_key(l) for l, b in X.walk_leaves(X.expand(e)) if not b and l[0] == "ax"}

    ins = case["ins"]
    t = keys(ins[0])
    c = set().union(*[keys(e) for e in ins[1:-1]]) if len(ins) > 2 else set()
    u = keys(ins[-1])
    return t, c, u


def has_duplicates(case, arrays):
    """Do two different loop iterations address the same element?  (cheap proxy: oracle candidates)"""
    return any(d.get("dup") == "same" for d in case["data"] if d["kind"] == "coord")


def evaluate(case, stats):
    import einx

    arrays = G.build_arrays(case)
    try:
        expected = L.run_update(case["op"], case["ins"], case["outs"][0], case["env"], arrays)
    except L.Unsupported as e:
        stats.count("harness:reference_unsupported")
        return []
    feats = G.features(case)
    t, c, u = _unbr_sets(case)
    env = case["env"]
    big = lambda s: {k for k in s if env[k] > 1}
    not_shared = (big(t) | big(c) | big(u)) - (big(t) & big(c) & big(u))
    contested = any(len(s) > 1 for s in expected.reshape(-1)) if case["op"] == "set_at" else has_duplicates(case, arrays)
    stats.count("op:" + case["op"])
    stats.count("backend:" + str(case.get("backend")))
    for k, v in feats.items():
        if v is True:
            stats.count("feat:" + k)
    if big(c) - big(t) - big(u):
        stats.count("feat:axis_in_coords_only")
    if big(u) - big(t) - big(c):
        stats.count("feat:axis_in_updates_only")
    if big(t) - big(c) - big(u):
        stats.count("feat:axis_in_target_only")
    if big(c | t) - big(u):
        stats.count("feat:update_repeated_along_axis")
    if contested:
        stats.count("feat:contested_or_duplicates")
    if len(case["ins"]) > 3:
        stats.count("feat:several_coordinate_tensors")
    if not_shared or contested:
        stats.nt(G.canon_key(case))
    stats.sample({"op": case["op"], "desc": case["desc"], "shapes": [list(a.shape) for a in arrays], "backend": case.get("backend")})
    try:
        got = c01.call_einx(case, [a.copy() for a in arrays])
    except einx.errors.OperationNotSupportedError as e:
        stats.count("outcome:unsupported")
        if c01.unsupported_allowed(case):
            return []
        return [Violation(f"C14|unsupported|{case.get('backend')}|{case['op']}", str(e)[:200])]
    except Exception as e:  # noqa: BLE001
        stats.count("outcome:exception")
        cause = e.__cause__ if isinstance(e, einx.errors.CallOperationError) and e.__cause__ else e
        return [Violation(common.exc_bucket(PROP, cause), f"well-formed call raised {type(e).__name__}: {case['op']}({case['desc']!r}, shapes={[a.shape for a in arrays]}, sizes={case['sizes']}, backend={case.get('backend')}): {str(e)[:300]}")]
    stats.count("outcome:ok")
    msg = L.compare(expected, got)
    if msg is not None:
        cls = []
        if big(c | t) - big(u):
            cls.append("upd_missing_axis")
        if big(c) - big(t):
            cls.append("coord_extra_axis")
        if contested:
            cls.append("dup")
        if feats["flatten"]:
            cls.append("flatten")
        return [Violation(f"C14|value|{case['op']}:{'+'.join(cls)}", f"{case['op']}({case['desc']!r}, shapes={[a.shape for a in arrays]}, sizes={case['sizes']}, backend={case.get('backend')}): {msg}", {"got": np.asarray(got).tolist()})]
    # read-back through get_at with the same coordinates
    out = case["outs"][0]
    coords = case["ins"][1:-1]
    names = []
    for e in [out] + coords:
        for l, b in X.walk_leaves(X.expand(e)):
            if not b and l[0] == "ax" and l[1] not in names:
                names.append(l[1])
    rb_out = [["ax", n] for n in names]
    rb_ins = [out] + coords
    try:
        exp_rb = L.run_op("get_at", rb_ins, [rb_out], env, [expected] + arrays[1:-1])[0]
    except L.Unsupported:
        stats.count("harness:readback_unsupported")
        return []
    desc = X.p_desc(rb_ins, [rb_out])
    kw = {}
    if case.get("backend") is not None:
        kw["backend"] = case["backend"]
    for e in rb_ins + [rb_out]:
        for l, _ in X.walk_leaves(X.expand(e)):
            if l[0] == "ax":
                kw[l[1]] = env[l[1]]
    try:
        rb = einx.get_at(desc, np.asarray(got), *arrays[1:-1], **kw)
    except Exception as e:  # noqa: BLE001
        cause = e.__cause__ if isinstance(e, einx.errors.CallOperationError) and e.__cause__ else e
        return [Violation(common.exc_bucket(PROP, cause, "readback"), f"read-back get_at({desc!r}) raised {type(e).__name__}: {str(e)[:300]}")]
    stats.count("readback:done")
    msg = L.compare(exp_rb, rb)
    if msg is not None:
        return [Violation(f"C14|readback|{case['op']}", f"get_at({desc!r}) after {case['op']}({case['desc']!r}): {msg}")]
    return []


def replay_case(case):
    return evaluate(case, common.Stats())


def make_strategy(tier, k):
    return G.call_case(ops=G.UPDATE, backends=[None, "numpy", "numpy.numpylike", "numpy.einsum"], quick=(tier == "quick"))


def worker(k, n, tier, seed, known_buckets, extra):
    return standard_worker(PROP, make_strategy(tier, k), evaluate, k, n, tier, seed, known_buckets, quick_examples=2500, thorough_examples=120000)


def run(tier, seed, known_buckets):
    return standard_run(PROP, tier, seed, known_buckets)

"""C12 -- the expression parser is total and stable under re-printing and extra spacing."""

import itertools
import re
import warnings

import numpy as np
from hypothesis import strategies as st

from .. import common, gen as G, expr as X
from ..common import Violation
from ._base import standard_worker

PROP = "C12"
TOKENS = ["a", "b", "1", "2", "(", ")", "[", "]", "...", "->", ",", "+", " "]
RULE = (
    "(a) Exhaustive: every sequence over the 13 tokens {a,b,1,2,(,),[,],...,->,',',+,space} up to length 5 (quick: "
    "402,234 strings) or 6 (thorough: 5,229,043; 7 with VERIF_C12_MAXLEN=7) is parsed with stage1.parse_op; oracle: returns a tree or raises "
    "einx.errors.SyntaxError whose message quotes the caller's string with carets inside it; for every accepted string "
    "parse(str(tree)) is structurally equal to the tree; inserting redundant spaces (all admissible gaps, and a hashed "
    "subset) gives the same outcome (same error class or equal normalised trees). (b) Hypothesis: arbitrary text over the "
    "notation alphabet plus other characters, S1-printed valid descriptions with token-level mutations and deep nesting, same "
    "oracles. (c) accepted strings are run through public operations of every family with tensors of matching rank: any "
    "SyntaxError must quote the caller's string. (d) thorough tier: 6 coverage-guided campaigns (atheris/libFuzzer, einx's stage1 "
    "parser instrumented; bytes decoded token-wise into strings; empty corpus and a corpus of valid descriptions from the repository's tests; 60,000 executions each) with the "
    "oracles of (a) inside the target; findings are bucketed and the campaign continues. Non-trivial: a string that parses or fails after the lexer; distinct by string."
)
ASSUMPTIONS = [
    "redundant spaces are only those the property names: next to an existing space, at either end, directly inside a delimiter, next to '->' ',' '+', never before '...'",
    "nesting depth is bounded by 40 in generated strings (Python recursion limit is not the parser's contract)",
]
LEVEL = "exploration"

_LITS = ["...", "->", ",", "+", "(", ")", "[", "]", " "]


def lex(s):
    toks, i = [], 0
    while i < len(s):
        for l in _LITS:
            if s.startswith(l, i):
                toks.append(l)
                i += len(l)
                break
        else:
            j = i
            while j < len(s) and not any(s.startswith(l, j) for l in _LITS):
                j += 1
            toks.append(s[i:j])
            i = j
    return toks


def gaps(toks):
    """Indices k (0..len) of gaps where a space is redundant."""
    out = []
    for k in range(len(toks) + 1):
        p = toks[k - 1] if k > 0 else None
        n = toks[k] if k < len(toks) else None
        if n == "...":
            continue
        if p is None or n is None or p == " " or n == " " or p in ("->", ",", "+", "(", "[") or n in ("->", ",", "+", ")", "]"):
            out.append(k)
    return out


def spaced(s, which):
    toks = lex(s)
    g = gaps(toks)
    if which == "all":
        sel = set(g)
    else:
        h = hash_str(s)
        sel = {k for i, k in enumerate(g) if (h >> (i % 60)) & 1}
        if not sel and g:
            sel = {g[h % len(g)]}
    out = []
    for k in range(len(toks) + 1):
        if k in sel:
            out.append(" ")
        if k < len(toks):
            out.append(toks[k])
    return "".join(out)


def hash_str(s):
    h = 1469598103934665603
    for ch in s.encode():
        h = ((h ^ ch) * 1099511628211) & 0xFFFFFFFFFFFFFFFF
    return h


def canon(tree):
    """Structural normal form: unnamed axis names and ellipsis ids replaced by order of first appearance."""
    from einx._src.namedtensor import stage1

    ids = {}
    un = {}

    def rec(e):
        if isinstance(e, stage1.Axis):
            name = e.name
            if name.startswith("unnamed."):
                # identity of unnamed axes is not part of the printed notation ("2 (,)" distributes one
                # number over two tensors, its printed form "2 (), 2 ()" has two): compare by value only
                name = "unnamed"
            return ("Axis", name, e.value)
        if isinstance(e, stage1.Ellipsis):
            # ellipsis ids are not part of the notation either (a distributed "n..." keeps one id, its printed
            # top-level form has one per tensor; all are tied together by the axis name anyway)
            return ("Ellipsis", rec(e.inner))
        if isinstance(e, stage1.FlattenedAxis) and isinstance(e.inner, stage1.ConcatenatedAxis):
            # "((a + b))" is "(a + b)": the parser itself collapses the doubled parentheses, but a distributed
            # "((a + b), c)" keeps a composition around the single concatenated axis; same meaning, same printed form
            return rec(e.inner)
        if isinstance(e, (stage1.FlattenedAxis, stage1.Brackets)):
            return (type(e).__name__, rec(e.inner))
        return (type(e).__name__, tuple(rec(c) for c in e.children))

    return rec(tree)


def outcome(s):
    """('ok', canon, tree) | ('syntax', message, pos) | ('other', exception)"""
    import einx
    from einx._src.namedtensor.stage1 import parse_op

    try:
        t = parse_op(s)
        return ("ok", canon(t), t)
    except einx.errors.SyntaxError as e:
        return ("syntax", str(e), getattr(e, "pos", None))
    except RecursionError as e:
        return ("other", e)
    except Exception as e:  # noqa: BLE001
        return ("other", e)


def check_string(s, stats, do_spacing=True, count_only=False):
    """All parser-level oracles for one string.  Returns list of Violations."""
    o = outcome(s)
    if o[0] == "other":
        return [Violation(common.exc_bucket(PROP, o[1], "parse"), f"parse_op({s!r}) raised {type(o[1]).__name__}: {str(o[1])[:200]}")]
    if o[0] == "syntax":
        msg, pos = o[1], o[2]
        if f'Expression: "{s}"' not in msg and "%EXPR%" not in msg:
            # messages without an expression line are acceptable only if they quote nothing else
            if "Expression:" in msg:
                return [Violation("C12|quote|parse", f"SyntaxError for {s!r} quotes a different expression: {msg[:300]}")]
        if pos is not None and any(p < 0 or p >= len(s) for p in pos):
            return [Violation("C12|caret|parse", f"SyntaxError for {s!r} has marker positions {pos} outside the string")]
        if "Expression:" in msg and "\n" not in s and "\r" not in s:  # a line break inside the quoted string breaks the line-wise reading
            lines = msg.split("\n")
            for i, line in enumerate(lines):
                if line.startswith('Expression: "') and i + 1 < len(lines):
                    carets = lines[i + 1]
                    for j, ch in enumerate(carets):
                        if ch == "^" and not (13 <= j < 13 + len(s)):
                            return [Violation("C12|caret|parse", f"SyntaxError for {s!r}: caret outside the quoted string")]
    else:
        stats.count("accepted")
        t = o[2]
        printed = str(t)
        o2 = outcome(printed)
        if o2[0] != "ok":
            e = o2[1] if o2[0] == "other" else None
            return [Violation("C12|roundtrip_reject|" + o2[0], f"{s!r} parses, prints as {printed!r}, which does not parse again: {str(o2[1])[:200]}")]
        if o2[1] != o[1]:
            return [Violation("C12|roundtrip_differs", f"{s!r} parses, prints as {printed!r}, which parses to a different structure")]
    if do_spacing:
        for which in ("all", "hash"):
            s2 = spaced(s, which)
            if s2 == s:
                continue
            o2 = outcome(s2)
            stats.count("spaced_variants")
            if o2[0] != o[0]:
                return [Violation(f"C12|spacing|{o[0]}->{o2[0]}", f"{s!r} -> {o[0]} but with redundant spaces {s2!r} -> {o2[0]} ({str(o2[1])[:150] if o2[0] != 'ok' else ''})")]
            if o[0] == "ok" and o2[1] != o[1]:
                return [Violation("C12|spacing|structure", f"{s!r} and {s2!r} parse to different structures")]
    if o[0] == "ok" or (o[0] == "syntax" and "is not allowed" not in o[1]):
        if count_only:
            stats.count("nontrivial_exhaustive")  # enumeration yields every string once: distinct by construction
        else:
            stats.nontrivial.add(hash_str(s))
    return []


# ------------------------------------------------------------------ (a) exhaustive


def maxlen_for(tier):
    import os

    if os.environ.get("VERIF_C12_MAXLEN"):
        return int(os.environ["VERIF_C12_MAXLEN"])
    return 5 if tier == "quick" else 6



def exhaustive(k, n, maxlen, stats):
    viols = {}
    count = 0
    idx = 0
    for length in range(0, maxlen + 1):
        for combo in itertools.product(TOKENS, repeat=length):
            idx += 1
            if idx % n != k:
                continue
            s = "".join(combo)
            count += 1
            for v in check_string(s, stats, count_only=True):
                if v.bucket not in viols or len(s) < len(viols[v.bucket]["case"]["string"]):
                    viols[v.bucket] = {"bucket": v.bucket, "message": v.message, "case": {"kind": "string", "string": s}, "detail": {}}
    stats.evaluations += count
    stats.count("exhaustive_strings", count)
    return list(viols.values())


# ------------------------------------------------------------------ (b) + (c) hypothesis

MUT_TOKENS = TOKENS + ["\n", "\t", "c\n", "$", "{", "}", "|", "\u00b2", "-", ">", ".", "..", "a.b", "0", "00"]
_SEEDS = []


def seed_descriptions():
    """Descriptions harvested from the repository's tests and tutorials plus a few nested-ellipsis shapes."""
    if not _SEEDS:
        import os

        with open(os.path.join(os.path.dirname(os.path.dirname(__file__)), "seed_descriptions.txt")) as f:
            _SEEDS.extend([l.rstrip("\n") for l in f if l.strip()])
    return _SEEDS


ALPHA = list("abcxyz_ABC0123456789()[],+-> .")


def _wrap_span(draw, toks, i):
    """Structural mutation: put a span of 1-4 tokens starting at i into (redundant) parentheses or brackets, optionally
    repeated by an ellipsis: nestings like "[[a b]...]" or "((a + b))" that no valid description of the corpus contains."""
    j = min(len(toks), i + draw(st.integers(1, 4)))
    o, c = draw(st.sampled_from([("(", ")"), ("[", "]"), ("[", "]")]))
    toks.insert(j, c + ("..." if draw(st.integers(0, 2)) == 0 else ""))
    toks.insert(i, o)


@st.composite
def text_case(draw):
    kind = draw(st.sampled_from(["tokens", "chars", "valid", "mutated", "mutated", "deep", "seeded", "seeded", "wrapped"]))
    origin_op = None
    if kind == "tokens":
        toks = draw(st.lists(st.sampled_from(TOKENS + ["c", "ab", "a1", "_x", "10", "3", "a", "b", " ", " "]), min_size=0, max_size=24))
        s = "".join(toks)
    elif kind == "chars":
        s = draw(st.text(alphabet=st.one_of(st.sampled_from(ALPHA), st.characters(min_codepoint=1, max_codepoint=0x2FF)), max_size=30))
    elif kind == "seeded":
        s = draw(st.sampled_from(seed_descriptions()))
        toks = lex(s)
        for _ in range(draw(st.integers(0, 2))):
            if not toks:
                break
            i = draw(st.integers(0, len(toks) - 1))
            m = draw(st.sampled_from(["del", "dup", "swap", "ins", "ell", "wrap", "wrap"]))
            if m == "wrap":
                _wrap_span(draw, toks, i)
            elif m == "del":
                toks.pop(i)
            elif m == "dup":
                toks.insert(i, toks[i])
            elif m == "swap" and i + 1 < len(toks):
                toks[i], toks[i + 1] = toks[i + 1], toks[i]
            elif m == "ell":
                toks.insert(i + 1, "...")
            else:
                toks.insert(i, draw(st.sampled_from(MUT_TOKENS)))
        s = "".join(toks)
    elif kind == "wrapped":
        # redundant nesting on top of a valid description: spans put into extra parentheses / brackets, with or without "..."
        s = draw(st.sampled_from(seed_descriptions()))
        toks = lex(s)
        for _ in range(draw(st.integers(1, 3))):
            if toks:
                _wrap_span(draw, toks, draw(st.integers(0, len(toks) - 1)))
        s = "".join(toks)
    elif kind == "deep":
        d = draw(st.integers(5, 40))
        o = draw(st.sampled_from(["(", "["]))
        c = ")" if o == "(" else "]"
        inner = draw(st.sampled_from(["a", "a b", "", "a + b", "a..."]))
        s = o * d + inner + c * d
        if draw(st.booleans()):
            s = s + " -> " + inner.replace("+", " ")
    else:
        case = draw(G.call_case(quick=True))
        origin_op = case["op"]
        s = case["desc"]
        if draw(st.booleans()):
            s = X.p_desc(case["ins"])
        if kind == "mutated":
            toks = lex(s)
            for _ in range(draw(st.integers(1, 2))):
                if not toks:
                    break
                i = draw(st.integers(0, len(toks) - 1))
                m = draw(st.sampled_from(["del", "dup", "swap", "ins", "wrap"]))
                if m == "wrap":
                    _wrap_span(draw, toks, i)
                elif m == "del":
                    toks.pop(i)
                elif m == "dup":
                    toks.insert(i, toks[i])
                elif m == "swap" and i + 1 < len(toks):
                    toks[i], toks[i + 1] = toks[i + 1], toks[i]
                else:
                    toks.insert(i, draw(st.sampled_from(MUT_TOKENS)))
            s = "".join(toks)
    if draw(st.integers(0, 14)) == 0:
        # whitespace other than the blank is not part of the notation: multi-line / tab-separated descriptions
        s = s.replace(" ", draw(st.sampled_from(["\n", "\t", " \n", "\r\n"])), draw(st.integers(1, 3)))
    return {"kind": "string", "string": s, "op_seed": draw(st.integers(0, 10**6)), "origin_op": origin_op}


PUBLIC_OPS = ["id", "add", "sum", "dot", "get_at", "set_at", "softmax", "sort", "roll", "argmax", "where", "logsumexp", "flip", "solve_axes", "solve_shapes", "check"]


def check_public(s, op_seed, stats):
    """(c): run an accepted string through a public op; a SyntaxError must quote the caller's string."""
    import einx
    from einx._src.namedtensor import stage1

    o = outcome(s)
    rng = np.random.default_rng(op_seed)
    op = PUBLIC_OPS[op_seed % len(PUBLIC_OPS)]
    if o[0] != "ok" and op in ("solve_axes", "solve_shapes", "check") and "->" not in s:
        # rejected strings: the solve_* entry points must quote the caller's string as well
        try:
            with warnings.catch_warnings():
                warnings.simplefilter("ignore")
                getattr(einx, op)(s, np.ones((2, 2)))
        except einx.errors.SyntaxError as e:
            if "Expression:" in str(e) and f'Expression: "{s}"' not in str(e):
                return [Violation(f"C12|foreign_text|{op}", f"einx.{op}({s!r}, ...) raised a SyntaxError about text the caller did not write: {str(e)[:300]}")]
        except Exception:  # noqa: BLE001
            pass
        return []
    if o[0] != "ok":
        return []
    tree = o[2]
    ins = tree.children[0].children
    tensors = []
    for e in ins:
        nd = e.ndim
        if nd is None:
            nd = int(rng.integers(0, 4))
        tensors.append(np.ones(tuple(int(x) for x in rng.integers(1, 3, size=nd))))
    if op in ("sum", "softmax", "sort", "roll", "argmax", "logsumexp", "flip"):
        tensors = tensors[:1] if tensors else [np.ones(())]
    if op == "where":
        tensors = (tensors + [np.ones(())] * 3)[:3]
    kw = {"shift": 1} if op == "roll" else {}
    stats.count("public_calls")
    try:
        with warnings.catch_warnings():
            warnings.simplefilter("ignore")
            getattr(einx, op)(s, *tensors, **kw)
    except einx.errors.SyntaxError as e:
        msg = str(e)
        if "Expression:" in msg and f'Expression: "{s}"' not in msg:
            return [Violation(f"C12|foreign_text|{op}", f"einx.{op}({s!r}, ...) raised a SyntaxError about text the caller did not write: {msg[:300]}")]
    except Exception:  # noqa: BLE001
        pass  # other rejections are C03's subject
    return []


def evaluate(case, stats):
    s = case["string"]
    v = check_string(s, stats)
    if v:
        return v
    return check_public(s, case.get("op_seed", 0), stats)


def replay_case(case):
    return evaluate(case, common.Stats())


def make_strategy(tier, k):
    return text_case()


def worker(k, n, tier, seed, known_buckets, extra):
    fr = standard_worker(PROP, text_case(), evaluate, k, n, tier, seed, known_buckets, quick_examples=12000, thorough_examples=400000)
    stats = common.Stats()
    viols = exhaustive(k, n, maxlen_for(tier), stats)
    fr2 = stats.to_fragment()
    fr2["violations"] = [v for v in viols if v["bucket"] not in known_buckets]
    for v in viols:
        if v["bucket"] in known_buckets:
            fr2["excluded"][v["bucket"]] = fr2["excluded"].get(v["bucket"], 0) + 1
    fr2["samples"] = []
    frs = [fr, fr2]
    if tier == "thorough" and k < FUZZ_WORKERS:
        fr3 = run_fuzz(k, seed, known_buckets)
        if fr3 is not None:
            frs.append(fr3)
    merged = common.merge_fragments(frs)
    merged["nontrivial"] = list(merged["nontrivial"])
    return merged


FUZZ_WORKERS = 6
FUZZ_RUNS = 60000


def run_fuzz(k, seed, known_buckets):
    """(d) coverage-guided campaign (atheris/libFuzzer) in a subprocess; its violations are token-minimised here."""
    import json
    import os
    import shutil
    import subprocess
    import sys
    import tempfile

    d = tempfile.mkdtemp(prefix="einxverif_fuzz_")
    try:
        frag = os.path.join(d, "frag.json")
        runs = max(1000, int(int(os.environ.get("VERIF_FUZZ_RUNS", FUZZ_RUNS)) * common.SCALE))
        mode = "seeded" if k % 2 else "empty"
        cmd = [sys.executable, "-W", "ignore", "-m", "einxverif.fuzz_parser", frag, str(runs), str(seed * 100 + k + 1), mode, json.dumps(sorted(known_buckets))]
        subprocess.run(cmd, stdout=subprocess.DEVNULL, stderr=subprocess.DEVNULL, timeout=6 * 3600)
        if not os.path.exists(frag):
            return None
        with open(frag) as f:
            fr = json.load(f)
        if fr.get("unavailable"):
            return None
        fr["hist"]["fuzz_campaigns_" + mode] = 1
        for v in fr.get("violations", []):
            v["case"]["string"] = minimise_string(v["case"]["string"], v["bucket"])
        return fr
    except subprocess.TimeoutExpired:
        return None
    finally:
        shutil.rmtree(d, ignore_errors=True)


def minimise_string(s, bucket):
    toks = lex(s)
    changed = True
    while changed and len(toks) > 1:
        changed = False
        for i in range(len(toks)):
            t2 = toks[:i] + toks[i + 1 :]
            try:
                vs = check_string("".join(t2), common.Stats())
            except Exception:  # noqa: BLE001
                vs = []
            if any(v.bucket == bucket for v in vs):
                toks = t2
                changed = True
                break
    return "".join(toks)


def run(tier, seed, known_buckets):
    frags = common.run_workers(PROP, common.NWORKERS, tier, seed, known_buckets, None)
    merged = common.merge_fragments(frags)
    maxlen = maxlen_for(tier)
    total = sum(13**l for l in range(maxlen + 1))
    merged["extra_cov"] = {
        "exhaustive": True,
        "exhaustive_space": f"all {total} token sequences of length <= {maxlen} over 13 tokens (sub-space (a)); (b),(c) are sampled",
        "exhaustive_strings": merged["hist"].get("exhaustive_strings", 0),
    }
    merged["nt_extra"] = merged["hist"].get("nontrivial_exhaustive", 0)
    if merged["hist"].get("exhaustive_strings", 0) != total:
        merged["notes"].append(f"exhaustive enumeration incomplete: {merged['hist'].get('exhaustive_strings', 0)} of {total}")
        merged["extra_cov"]["exhaustive"] = False
    return merged

"""C15 -- adapted user functions follow loop-notation semantics; their outputs are checked."""

import copy
import math
import warnings

import numpy as np
from hypothesis import strategies as st

from .. import common, gen as G, loopsem as L, expr as X, loopvmap as LV
from ..common import Violation
from ._base import standard_run, standard_worker

PROP = "C15"
RULE = (
    "einx.numpy.adapt_numpylike_reduce / adapt_numpylike_elementwise and adapt_with_vmap (jax front-end over the loop-vmap "
    "double; generated 1-3 inputs / 1-2 outputs with shared, output-only, numeric and ellipsis bracket axes) are wrapped around instrumented pure numpy functions "
    "(with and without keyword-only options) and called with generated descriptions valid for the adapter's signature class "
    "(flatten, ellipsis, diagonal, squeeze, broadcast, permutation as in C01), in short histories of 1-3 calls whose option "
    "values change, repeat or are hash-equal twins (2 / 2.0 / True); option *names* are drawn too (scale, tag, and short names such as s, a, x, i, ax, k, n, name, shape that resemble axis names or einx's own parameter names); option values: ints, floats incl. nan/inf/-0.0, bools, None, "
    "strings with quotes, backslashes, newlines and non-ASCII, tuples, lists, numpy scalars. Oracle: result equals the loop "
    "interpreter with the same Python function as elementary operation; recorded arguments: reduce receives the aligned tensor "
    "and axis = tuple of the bracketed positions, element-wise receives equal-rank broadcast-compatible tensors, vmap receives the bracketed sub-tensors; every option "
    "value arrives == and type-identical in every call; an axis named like an option raises SemanticError; functions returning "
    "a wrong type / rank / shape / arity make the call raise. Non-trivial: a call with a keyword option, >=2 bracketed axes or a "
    "rank-changing alignment; distinct by (adapter, canonical call, function, option kinds)."
)
ASSUMPTIONS = [
    "no vmap-capable framework is installed: adapt_with_vmap is einx's own einx.jax.adapt_with_vmap code run over numpy and a Python-loop vmap (einxverif/loopvmap.py); the function is therefore called once per vectorised index",
    "option values are drawn from plain data (no arbitrary objects)",
]

STR_POOL = ["plain", "a'b", 'q"q', "back\\slash", "new\nline", "tab\there", "unié中", "", "%s {x}", "#c"]


def opt_value(draw):
    kind = draw(st.sampled_from(["int", "float", "special", "bool", "none", "str", "tuple", "list", "npscalar"]))
    if kind == "int":
        return draw(st.integers(-3, 5))
    if kind == "float":
        return draw(st.sampled_from([0.5, 2.0, -1.25, 3.0, 1e-3]))
    if kind == "special":
        return draw(st.sampled_from([float("nan"), float("inf"), float("-inf"), -0.0]))
    if kind == "bool":
        return draw(st.booleans())
    if kind == "none":
        return None
    if kind == "str":
        return draw(st.sampled_from(STR_POOL))
    if kind == "tuple":
        return (draw(st.integers(0, 3)), draw(st.sampled_from([1.5, "s", None])))
    if kind == "list":
        return [draw(st.integers(0, 3)), [draw(st.integers(0, 3))]]
    return draw(st.sampled_from([np.float32(1.5), np.int64(3), np.float64(2.0)]))


def encode(v):
    """JSON-able encoding of option values (replay files)."""
    if isinstance(v, float) and (math.isnan(v) or math.isinf(v)):
        return {"__f__": repr(v)}
    if isinstance(v, np.generic):
        return {"__np__": [type(v).__name__, v.item()]}
    if isinstance(v, tuple):
        return {"__t__": [encode(x) for x in v]}
    if isinstance(v, list):
        return [encode(x) for x in v]
    return v


def decode(v):
    if isinstance(v, dict) and "__f__" in v:
        return float(v["__f__"])
    if isinstance(v, dict) and "__np__" in v:
        return getattr(np, v["__np__"][0])(v["__np__"][1])
    if isinstance(v, dict) and "__t__" in v:
        return tuple(decode(x) for x in v["__t__"])
    if isinstance(v, list):
        return [decode(x) for x in v]
    return v


@st.composite
def c15_case(draw, tier="quick"):
    adapter = draw(st.sampled_from(["reduce", "reduce", "elementwise", "vmap", "vmap"]))
    if adapter == "vmap":
        base = draw(G.call_case(ops=["vmapop"], quick=True, backends=[None]))
        fn = draw(st.sampled_from(["vm", "vm", "vm_plain"]))
    elif adapter == "reduce":
        base = draw(G.call_case(ops=["sum"], quick=True, backends=[None]))
        fn = draw(st.sampled_from(["sumsq", "wmax", "plain"]))
    else:
        fn = draw(st.sampled_from(["poly", "tri", "unary"]))
        n = {"poly": 2, "tri": 3, "unary": 1}[fn]
        base = draw(G.call_case(ops=["add"], quick=True, backends=[None], min_inputs=n))
        if len(base["ins"]) != n:
            fn = {1: "unary", 2: "poly", 3: "tri"}.get(len(base["ins"]), None)
            if fn is None:
                base = draw(G.call_case(ops=["subtract"], quick=True, backends=[None]))
                fn = "poly"
    has_opts = fn in ("sumsq", "poly", "unary", "vm")
    history = []
    ncalls = draw(st.integers(1, 3))
    for i in range(ncalls):
        if not has_opts:
            history.append({})
            continue
        o = {}
        if draw(st.booleans()):
            o["scale"] = encode(opt_value(draw)) if fn != "unary" else draw(st.integers(1, 3))
        if draw(st.booleans()) and fn != "unary":
            o["tag"] = encode(opt_value(draw))
        if i > 0 and history[0] and draw(st.integers(0, 2)) == 0:
            # hash-equal twin of the first call's option value
            o = dict(history[0])
            k = sorted(o)[0]
            v = decode(o[k])
            if isinstance(v, bool):
                o[k] = int(v)
            elif isinstance(v, int):
                o[k] = float(v)
            elif isinstance(v, float) and math.isfinite(v) and v == int(v):
                o[k] = int(v)
        history.append(o)
    optnames = {"scale": "scale", "tag": "tag"}
    if has_opts and draw(st.booleans()):
        from .. import relations as R_

        # names of the description, including ellipsis families with zero repetitions (their name is still an axis name)
        used = {n.split(".")[0] for n in X.all_axis_names([X.expand(e) for e in base["ins"] + base["outs"]])} | set(base["sizes"])
        used |= {it[1].split(".")[0] for e in base["ins"] + base["outs"] for it in R_._nodes(e) if it[0] == "ax"}
        taken = used | {p_.lstrip("*") for p_ in POSITIONAL[fn]} | {"axis"}
        pool = [n for n in OPT_NAME_POOL if n not in taken]
        if len(pool) >= 2:
            picked = draw(st.permutations(pool))[:2]
            optnames = {"scale": picked[0], "tag": picked[1]}
    special = draw(st.sampled_from([None, None, None, "axis_named_like_option", "bad_type", "bad_type_shaped", "bad_rank", "bad_shape", "bad_arity"]))
    return {"adapter": adapter, "fn": fn, "base": base, "history": history, "special": special, "optnames": optnames}


class Recorder:
    def __init__(self):
        self.calls = []


_WARM = []


make_vm_fn = LV.make_elementary

OPT_NAME_POOL = ["scale", "tag", "s", "a", "x", "i", "ax", "xi", "k", "p", "xs", "axi", "name", "shape", "n", "si"]
POSITIONAL = {"sumsq": ["x", "axis"], "poly": ["x", "y"], "unary": ["x"], "vm": ["*xs"]}


def rename_options(f, fname, mapping):
    """The same function with its keyword-only options renamed (canonical name -> public name); einx derives the set of
    forwarded keywords from the signature, so the names themselves are part of the input domain."""
    if all(k == v for k, v in mapping.items()):
        return f
    import inspect

    pos = POSITIONAL[fname]
    canon = [n for n, p_ in inspect.signature(f).parameters.items() if p_.kind is inspect.Parameter.KEYWORD_ONLY]
    defaults = {n: inspect.signature(f).parameters[n].default for n in canon}
    kw = ", ".join(f"{mapping[n]}=_defaults[{n!r}]" for n in canon)
    fwd = ", ".join(f"{n}={mapping[n]}" for n in canon)
    star = "" if pos[0].startswith("*") else "*, "
    src = f"def f({', '.join(pos)}, {star}{kw}):\n    return _inner({', '.join(pos)}, {fwd})\n"
    ns = {"_inner": f, "_defaults": defaults}
    exec(src, ns)  # noqa: S102
    return ns["f"]



def make_fn(name, rec, bad=None):
    def post(r):
        if bad == "bad_type":
            return np.asarray(r).tolist()
        if bad == "bad_type_shaped":
            return LV.ShapedNonTensor(np.asarray(r))
        if bad == "bad_rank":
            return np.asarray(r)[..., None]
        if bad == "bad_shape":
            a = np.asarray(r)
            return np.concatenate([a.reshape(-1), a.reshape(-1)[:1]]) if a.ndim <= 1 else np.concatenate([a, a[:1]], axis=0)
        if bad == "bad_arity":
            return (np.asarray(r), np.asarray(r))
        return np.asarray(r)  # the documented contract is "returns a tensor" (numpy yields scalars for 0-d operands)

    def num(v):
        return v if isinstance(v, (int, float, np.integer, np.floating)) and not isinstance(v, bool) and v == v and not np.isinf(v) else 1

    if name == "sumsq":
        def f(x, axis, *, scale=1.0, tag=None):
            rec.calls.append({"args": [np.asarray(x)], "axis": axis, "opts": {"scale": scale, "tag": tag}})
            return post(num(scale) * np.sum(np.asarray(x) * np.asarray(x), axis=axis))
    elif name == "wmax":
        def f(x, axis):
            rec.calls.append({"args": [np.asarray(x)], "axis": axis, "opts": {}})
            return post(np.max(np.asarray(x) * 2 + 1, axis=axis))
    elif name == "plain":
        def f(x, axis):
            rec.calls.append({"args": [np.asarray(x)], "axis": axis, "opts": {}})
            return post(np.sum(x, axis=axis))
    elif name == "poly":
        def f(x, y, *, scale=0.0, tag=None):
            rec.calls.append({"args": [np.asarray(x), np.asarray(y)], "axis": None, "opts": {"scale": scale, "tag": tag}})
            return post(np.asarray(x) * 2 + np.asarray(y) + num(scale))
    elif name == "tri":
        def f(x, y, z):
            rec.calls.append({"args": [np.asarray(x), np.asarray(y), np.asarray(z)], "axis": None, "opts": {}})
            return post(np.asarray(x) + 2 * np.asarray(y) + 3 * np.asarray(z))
    elif name == "unary":
        def f(x, *, scale=2):
            rec.calls.append({"args": [np.asarray(x)], "axis": None, "opts": {"scale": scale}})
            return post(np.asarray(x) * num(scale))
    else:
        raise ValueError(name)
    return f


def same_value(a, b):
    if type(a) is not type(b):
        return False
    if isinstance(a, float):
        return (a != a and b != b) or (a == b and math.copysign(1, a) == math.copysign(1, b))
    if isinstance(a, (tuple, list)):
        return len(a) == len(b) and all(same_value(x, y) for x, y in zip(a, b))
    if isinstance(a, np.generic):
        return a == b or (a != a and b != b)
    return a == b


def _plain_eq(p, v):
    if isinstance(p, (list, tuple, str, type(None))) or isinstance(v, (list, tuple, str, type(None))):
        return type(p) is type(v) and p == v
    try:
        return bool(p == v)
    except Exception:  # noqa: BLE001
        return False


def evaluate(rc, stats):
    import einx

    base, adapter, fname = rc["base"], rc["adapter"], rc["fn"]
    env = base["env"]
    arrays = G.build_arrays(base)
    special = rc["special"]
    rec = Recorder()
    bad = special if special and special.startswith("bad_") else None
    optnames = rc.get("optnames") or {"scale": "scale", "tag": "tag"}
    if adapter == "vmap":
        out_shapes = [tuple(X.br_shape(o, env)) for o in base["outs"]]
        user = make_vm_fn(fname, rec, out_shapes, bad=bad)
        adapt = LV.adapt_with_vmap
    else:
        user = make_fn(fname, rec, bad=bad)
        adapt = einx.numpy.adapt_numpylike_reduce if adapter == "reduce" else einx.numpy.adapt_numpylike_elementwise
    if fname in POSITIONAL:
        user = rename_options(user, fname, optnames)
    if not _WARM:
        # the first function adapted in a process has no keyword-only options; all instrumented functions share one
        # qualified name, so anything einx remembers per function *name* would leak from this one to the later ones
        _WARM.append(einx.numpy.adapt_numpylike_reduce(make_fn("plain", Recorder())))
        _WARM.append(einx.numpy.adapt_numpylike_elementwise(make_fn("tri", Recorder())))
    ein = adapt(user)
    stats.count("adapter:" + adapter)
    stats.count("fn:" + fname)
    desc = base["desc"]
    aname = "adapt_with_vmap[loop vmap]" if adapter == "vmap" else f"adapt_numpylike_{adapter}"
    where0 = f"{aname}({fname})({desc!r}, shapes={[a.shape for a in arrays]}, sizes={base['sizes']}"

    if special == "axis_named_like_option":
        if fname not in ("sumsq", "poly", "unary", "vm"):
            return []
        # rename one axis to an option name: must raise SemanticError, never be taken as a size
        from .. import relations as R

        names = [n for n in X.all_axis_names([X.expand(e) for e in base["ins"] + base["outs"]]) if "." not in n]
        if not names:
            return []
        twin = R.rename_case(base, {names[0]: optnames["scale"]})
        stats.count("special:axis_named_like_option")
        try:
            with warnings.catch_warnings():
                warnings.simplefilter("ignore")
                ein(twin["desc"], *[a.copy() for a in arrays], **twin["sizes"])
        except einx.errors.SemanticError:
            return []
        except Exception as e:  # noqa: BLE001
            return [Violation(common.exc_bucket(PROP, e, "option_axis_clash"), f"{where0}) with an axis named {optnames['scale']!r} raised {type(e).__name__} instead of SemanticError: {str(e)[:200]}")]
        return [Violation("C15|option_axis_clash|accepted", f"{aname}({fname})({twin['desc']!r}) accepted an axis named like the keyword-only option {optnames['scale']!r}")]

    if bad:
        stats.count("special:" + bad)
        try:
            with warnings.catch_warnings():
                warnings.simplefilter("ignore")
                r = ein(desc, *[a.copy() for a in arrays], **base["sizes"])
        except Exception:  # noqa: BLE001
            stats.count("bad_rejected")
            return []
        # a wrong shape may coincide with the right one for degenerate sizes
        exp_shape = tuple(X.shape_of(X.expand(base["outs"][0]), env))
        if bad == "bad_shape" and adapter != "vmap" and np.shape(r) == exp_shape:
            return []
        return [Violation(f"C15|bad_output_accepted|{bad}|{adapter}", f"{where0}): the adapted function returned a {bad[4:]}-wrong value and the call returned {type(r).__name__} of shape {np.shape(r)} instead of failing")]

    # reference: loop semantics with the same function as elementary operation
    feats = G.features(base)
    nbr = sum(1 for l, b in X.walk_leaves(X.expand(base["ins"][0])) if b) if adapter in ("reduce", "vmap") else 0
    for ci, enc in enumerate(rc["history"]):
        opts = {k: decode(v) for k, v in enc.items()}
        ref_rec = Recorder()
        ref_user = make_fn(fname, ref_rec) if adapter != "vmap" else make_vm_fn(fname, ref_rec, out_shapes)
        if adapter == "vmap":
            el = lambda *xs, ref_user=ref_user, opts=opts: ref_user(*xs, **opts)
        elif adapter == "reduce":
            el = lambda s, ref_user=ref_user, opts=opts: ref_user(s, tuple(range(np.ndim(s))), **opts)
        else:
            el = lambda *xs, ref_user=ref_user, opts=opts: ref_user(*[x[()] for x in xs], **opts)
        try:
            if adapter == "vmap":
                expected = L.run_custom(base["ins"], base["outs"], env, arrays, el)
            else:
                expected = L.run_op("custom", base["ins"], base["outs"], env, arrays, {"_fn": el})[0]
        except L.Unsupported:
            stats.count("harness:reference_unsupported")
            return []
        rec.calls.clear()
        where = where0 + f", options={ {optnames[k]: v for k, v in opts.items()}!r}) [call {ci + 1} of {len(rc['history'])}]"
        try:
            with warnings.catch_warnings():
                warnings.simplefilter("ignore")
                got = ein(desc, *[a.copy() for a in arrays], **base["sizes"], **{optnames[k]: v for k, v in copy.deepcopy(opts).items()})
        except Exception as e:  # noqa: BLE001
            cause = e.__cause__ if isinstance(e, einx.errors.CallOperationError) and e.__cause__ else e
            okind = "+".join(sorted({type(v).__name__ for v in opts.values()}))
            return [Violation(common.exc_bucket(PROP, cause, f"{adapter}|opts:{okind}"), f"{where} raised {type(e).__name__}: {str(e)[-300:]}")]
        stats.count("calls")
        if opts or nbr >= 2 or feats["flatten"] or feats["squeeze"] or feats["broadcast"]:
            stats.nt([adapter, G.canon_key(base), fname, sorted((k, type(v).__name__) for k, v in opts.items())])
        stats.sample({"adapter": adapter, "fn": fname, "desc": desc, "options": {k: repr(v) for k, v in opts.items()}, "shapes": [list(a.shape) for a in arrays]}, cap=6)
        ncalls_expected = [1]
        if adapter == "vmap":
            # the loop vmap calls the function once per assignment of the vectorised axes (of the inputs; whether axes that
            # only occur in an output are looped over or broadcast afterwards is not observable for a pure function)
            def nloops(exprs):
                vl = {}
                for e in exprs:
                    for leaf, b in X.walk_leaves(X.expand(e)):
                        if not b:
                            vl[X.leaf_key(leaf)] = env[leaf[1]] if leaf[0] == "ax" else leaf[1]
                return int(np.prod(list(vl.values()))) if vl else 1

            ncalls_expected = [nloops(base["ins"]), nloops(base["ins"] + base["outs"])]
        if len(rec.calls) not in ncalls_expected:
            return [Violation(f"C15|call_count|{adapter}", f"{where}: the adapted function was called {len(rec.calls)} times, expected {ncalls_expected[0]}")]
        # options verbatim
        for call in (rec.calls[:1] + rec.calls[-1:]) if adapter == "vmap" else rec.calls[:1]:
            for k, v in opts.items():
                gotv = call["opts"].get(k)
                if not same_value(v, gotv):
                    prev = [decode(h.get(k)) for h in rc["history"][:ci] if k in h]
                    twin = any(_plain_eq(p, v) and type(p) is not type(v) for p in prev if not (isinstance(p, float) and p != p))
                    plain_np = isinstance(v, np.generic) and type(gotv) is type(v.item()) and same_value(gotv, v.item())
                    if plain_np:
                        # the numpy scalar arrived as exactly its own Python value: independent of the history
                        kind = "numpy_scalar->python_scalar"
                    elif twin:
                        kind = "hash_equal_history"
                    elif isinstance(v, np.generic):
                        kind = "numpy_scalar->python_scalar"
                    elif isinstance(v, (list, tuple)):
                        kind = "container_converted"
                    else:
                        kind = f"{type(v).__name__}->{type(gotv).__name__}"
                    return [Violation(f"C15|option_not_verbatim|{kind}", f"{where}: option {k}={v!r} ({type(v).__name__}) arrived as {gotv!r} ({type(gotv).__name__})")]
        call = rec.calls[0]
        if adapter == "vmap":
            gots = got if len(base["outs"]) > 1 else (got,)
            if not isinstance(gots, tuple) or len(gots) != len(expected):
                return [Violation("C15|arity|vmap", f"{where}: expected {len(expected)} outputs, got {type(got).__name__}")]
            for j, (e, g) in enumerate(zip(expected, gots)):
                msg = L.compare(np.asarray(e), g)
                if msg is not None:
                    return [Violation(f"C15|value|{adapter}|{c_features(feats)}", f"{where} output {j}: {msg}")]
            want = [tuple(X.br_shape(e, env)) for e in base["ins"]]
            want2 = [tuple(X.el_shape(e, env)) for e in base["ins"]]  # compositions inside brackets kept: equally "the bracketed sub-tensor"
            for c in rec.calls:
                if [a.shape for a in c["args"]] not in (want, want2):
                    return [Violation("C15|subtensor_shapes|vmap", f"{where}: the function received tensors of shapes {[a.shape for a in c['args']]}, the bracketed sub-tensors have shapes {want}")]
            continue
        msg = L.compare(np.asarray(expected), got)
        if msg is not None:
            return [Violation(f"C15|value|{adapter}|{c_features(feats)}", f"{where}: {msg}")]
        # documented arguments
        if adapter == "reduce":
            ax = call["axis"]
            x = call["args"][0]
            leaves = list(X.walk_leaves(X.expand(base["ins"][0])))
            if X.has_node(base["ins"][0], "br"):  # syntactic presence (an ellipsis with zero repetitions still counts)
                blens = [env[l[1]] if l[0] == "ax" else l[1] for l, b in leaves if b]
            else:
                # no brackets at all: documented auto-bracketing of every axis that is missing from the output
                outk = {X.leaf_key(l) for l, _ in X.walk_leaves(X.expand(base["outs"][0]))}
                blens = [env[l[1]] if l[0] == "ax" else l[1] for l, b in leaves if X.leaf_key(l) not in outk]
            if not isinstance(ax, tuple) or not all(isinstance(a, (int, np.integer)) for a in ax):
                return [Violation("C15|axis_type|reduce", f"{where}: axis={ax!r} is not a tuple of ints")]
            if len(set(ax)) != len(ax) or any(a < 0 or a >= x.ndim for a in ax):
                return [Violation("C15|axis_range|reduce", f"{where}: axis={ax!r} for a tensor of rank {x.ndim}")]
            sel = [x.shape[a] for a in ax]
            # a composition that lies entirely inside brackets, "[(3 2)]", may reach the function as one axis of length 6:
            # the selected axes must be the bracketed axes up to merging neighbours (same total extent, not more axes)
            if sel != blens and not (int(np.prod(sel)) == int(np.prod(blens)) and len(sel) <= len(blens) and X.has_node(base["ins"][0], "flat")):
                return [Violation("C15|axis_positions|reduce", f"{where}: axis={ax!r} selects lengths {[x.shape[a] for a in ax]} of shape {x.shape}, bracketed axes have lengths {blens}")]
        else:
            xs = call["args"]
            if len({a.ndim for a in xs}) != 1:
                return [Violation("C15|rank|elementwise", f"{where}: arguments of ranks {[a.ndim for a in xs]}")]
            try:
                np.broadcast_shapes(*[a.shape for a in xs])
            except ValueError:
                return [Violation("C15|broadcast|elementwise", f"{where}: argument shapes {[a.shape for a in xs]} are not broadcast-compatible")]
    return []


def c_features(feats):
    return "+".join(k for k in ("diagonal", "ellipsis", "flatten", "broadcast", "squeeze") if feats.get(k))


def replay_case(case):
    return evaluate(case, common.Stats())


def make_strategy(tier, k):
    return c15_case(tier)


def worker(k, n, tier, seed, known_buckets, extra):
    return standard_worker(PROP, make_strategy(tier, k), evaluate, k, n, tier, seed, known_buckets, quick_examples=1500, thorough_examples=60000)


def run(tier, seed, known_buckets):
    return standard_run(PROP, tier, seed, known_buckets)

"""C02 -- axis and rank solving is sound, unambiguous and exact."""

import copy
import warnings

import numpy as np
from hypothesis import strategies as st

from .. import common, gen as G, expr as X, refsolve as RS
from ..common import Violation
from ._base import standard_run, standard_worker

PROP = "C02"
RULE = (
    "Hypothesis draws expression lists (1-4 expressions over shared axes: flattening, nesting, concatenation, brackets, "
    "numbers, ellipsis families incl. '(s ds)...' and '[s ds]...' pairs), marks each tensor shape as known or unknown (None), computes the "
    "minimal keyword set by unit propagation and then applies a variant: minimal / one needed size removed / redundant sizes "
    "/ one size contradicted / a size breaking divisibility / one dimension changed / scalar-vs-tuple ellipsis sizes; a "
    "'large' class scales lengths so that products and sums cross 2**31 and 2**32 (shapes passed as objects exposing "
    ".shape, no memory). solve_axes, solve_shapes and matches are compared with an independent enumeration of all positive-"
    "integer solutions (ranks, then lengths): success requires a non-empty solution set in which every reported quantity is "
    "unique and equal (as Python ints); an empty set or an ambiguous reported quantity requires RankError/AxisSizeError "
    "(matches: False); systems that unit propagation solves must succeed. Non-trivial: a flatten/concat with an unknown child "
    "or an ellipsis, not the all-known identity; distinct by canonical (expressions, shapes, keywords, api)."
)
ASSUMPTIONS = [
    "reference solver einxverif/refsolve.py enumerates solutions exactly; cases whose enumeration would exceed 2e5 candidates are skipped and counted",
    "systems that are uniquely solvable only by reasoning beyond single-unknown substitution may succeed or fail (soundness is still checked)",
    "nested ellipses are not generated (depth 1 only)",
]

VARIANTS = ["minimal", "minimal", "minus_one", "minus_one", "redundant", "contradicted", "nondivisible", "dim_changed", "scalar_tuple"]
APIS = ["solve_axes", "solve_shapes", "matches"]


class ShapeOnly:
    def __init__(self, shape):
        self.shape = tuple(shape)


@st.composite
def c02_case(draw, tier="quick"):
    ctx = G.Ctx(draw, True)
    n = draw(st.sampled_from([1, 1, 2, 2, 3, 4]))
    pool = G._vector_units(ctx, 4)
    # brackets are notation-neutral for solving, but an axis must be bracketed everywhere or nowhere
    pool = [(u[0], u[1], draw(st.integers(0, 5)) == 0) + tuple(u[3:]) for u in pool]
    # one "(s ds)..." style pair now and then
    pair = None
    if draw(st.integers(0, 5)) == 0:
        k = draw(st.sampled_from([1, 2, 2, 3]))
        s_ = ctx.new_family(k=k)
        d_ = ctx.new_family(k=k)
        pair = (s_, d_)
    # the pair may live in brackets: "[s ds]..." repeats a two-axis group, "[s]..." / "[ds]..." elsewhere
    pair_br = pair is not None and draw(st.integers(0, 2)) == 0
    exprs = []
    quadratic = draw(st.integers(0, 11)) == 0
    if quadratic:
        # two axes tied by a product and a sum: several integer roots unless a == b (non-linear ambiguity)
        a, b = ctx.new_axis(), ctx.new_axis()
        extra = [u for u in pool if u[0] == "leaf"][:1]
        prod, summ = ["flat", [a, b]], ["cat", [a, b]]
        if draw(st.booleans()):
            exprs.append(G.wrap(ctx, extra, extras=False) + [prod, summ])
        else:
            exprs.append([prod] + G.wrap(ctx, extra, extras=False))
            exprs.append([summ])
        n = 0
    for i in range(n):
        us = ctx.perm(ctx.subset(pool, 0.7))
        if draw(st.integers(0, 4)) == 0:
            us.append(("leaf", ctx.new_num(draw(st.sampled_from(G.LENS))), False))
        if pair is not None and draw(st.booleans()):
            mode = draw(st.sampled_from(["flat", "split", "s_only"]))
            if pair_br:
                if mode == "flat":
                    us.insert(draw(st.integers(0, len(us))), ("fam2b", pair[0], pair[1], True))
                else:
                    us.insert(draw(st.integers(0, len(us))), ("fam", pair[0], True, "plain"))
                    if mode == "split":
                        us.insert(draw(st.integers(0, len(us))), ("fam", pair[1], True, "plain"))
            elif mode == "flat":
                us.insert(draw(st.integers(0, len(us))), ("fam2", pair[0], pair[1], False))
            elif mode == "split":
                us.insert(draw(st.integers(0, len(us))), ("fam", pair[0], False, "plain"))
                us.insert(draw(st.integers(0, len(us))), ("fam", pair[1], False, draw(st.sampled_from(["plain", "flat1"]))))
            else:
                us.insert(draw(st.integers(0, len(us))), ("fam", pair[0], False, "plain"))
        items = G.wrap(ctx, us)
        if draw(st.integers(0, 4)) == 0:
            # a concatenated axis: fresh axes / numbers, or axes of the pool (then tied to products elsewhere)
            plain = [u[1] for u in pool if u[0] == "leaf" and u[1][0] == "ax" and not u[2]]
            if len(plain) >= 2 and draw(st.booleans()):
                ch = list(draw(st.permutations(plain)))[:2]
            else:
                ch = [ctx.new_axis() if draw(st.booleans()) else ctx.new_num(draw(st.sampled_from(G.LENS))), ctx.new_axis()]
            items.insert(draw(st.integers(0, len(items))), ["cat", ch])
        exprs.append(items)
    env = ctx.env
    large = draw(st.integers(0, 5)) == 0
    if large:
        names = [k for k in env if not k.startswith("#") and env[k] > 1]
        for k in names[:3]:
            env[k] = env[k] * (2 ** draw(st.sampled_from([12, 15, 16, 20, 21])))
        # keep every dimension below 2**50 (far beyond real tensors, far below int64)
        guard = 0
        while guard < 200 and any(d >= 2**50 for e in exprs for d in X.shape_of(X.expand(e), env)):
            guard += 1
            big = max((k for k in env if not k.startswith("#")), key=lambda k: env[k])
            env[big] = max(2, env[big] // 1024)
    known = [quadratic or draw(st.integers(0, 9)) < 7 for _ in exprs]
    if not any(known) and draw(st.booleans()):
        known[0] = True
    sizes, smeta = G.compute_sizes(ctx, exprs, [], known_mask=known)
    # only keep the minimal set (compute_sizes adds random redundant ones)
    minimal = {k: v for k, v in sizes.items() if k in smeta["minimal"] or k in smeta["minimal_fams"]}
    if quadratic and draw(st.integers(0, 3)) > 0:
        minimal = {}  # leave the quadratic system to the solver
    nested_inner = None
    if pair is not None and not pair_br and draw(st.booleans()):
        # print "(s ds)..." as "(s ds...)...": the inner ellipsis is unconstrained by ranks, its product plays the role of ds
        used_flat = any(it[0] == "ell" and it[1] and it[1][0][0] == "flat" and pair[1] in [l[1] for l, _ in X.walk_leaves(it[1])] for e in exprs for it in G.X_iter(e))
        only_there = all(
            not (it[0] == "ell" and [l[1] for l, _ in X.walk_leaves(it[1]) if l[0] == "ax"] == [pair[1]]) for e in exprs for it in G.X_iter(e)
        )
        if used_flat and only_there:
            nested_inner = pair[1]
            minimal.pop(pair[1], None)
    return {
        "nested_inner": nested_inner,
        "ins": exprs,
        "env": dict(env),
        "known": known,
        "minimal_sizes": minimal,
        "variant": draw(st.sampled_from(VARIANTS)),
        "api": draw(st.sampled_from(APIS)),
        "rnd": [draw(st.integers(0, 10**6)) for _ in range(3)],
        "large": large,
        "det_fams": smeta.get("det_fams", []),
    }


def apply_variant(case):
    """-> (shapes, sizes) actually passed"""
    env = case["env"]
    rnd = case["rnd"]
    shapes = [tuple(X.shape_of(X.expand(e), env)) if k else None for e, k in zip(case["ins"], case["known"])]
    sizes = copy.deepcopy(case["minimal_sizes"])
    v = case["variant"]
    names = [n for n in X.all_axis_names([X.expand(e) for e in case["ins"]])]
    plain = [n for n in names if "." not in n]
    if v == "minus_one" and sizes:
        k = sorted(sizes)[rnd[0] % len(sizes)]
        del sizes[k]
    elif v == "redundant":
        for n in plain:
            if n not in sizes and (hash_i(n, rnd[0]) % 2 == 0):
                sizes[n] = env[n]
    elif v == "contradicted":
        cands = [n for n in plain]
        if cands:
            k = cands[rnd[0] % len(cands)]
            sizes[k] = env[k] + 1 + rnd[1] % 2
    elif v == "nondivisible":
        flats = [it for e in case["ins"] for it in _nodes(X.expand(e)) if it[0] == "flat" and len([c for c in it[1]]) >= 2]
        if flats:
            f = flats[rnd[0] % len(flats)]
            axs = [l[1] for l, _ in X.walk_leaves([f]) if l[0] == "ax" and "." not in l[1]]
            if axs:
                k = axs[rnd[1] % len(axs)]
                total = X.item_len(f, env)
                nd = [x for x in range(2, min(total + 2, 60)) if total % x != 0]
                if nd:
                    sizes[k] = nd[rnd[2] % len(nd)]
    elif v == "dim_changed":
        cands = [(i, d) for i, s in enumerate(shapes) if s is not None for d in range(len(s))]
        if cands:
            i, d = cands[rnd[0] % len(cands)]
            s = list(shapes[i])
            s[d] += 1 + rnd[1] % 3
            shapes[i] = tuple(s)
    elif v == "scalar_tuple":
        for k, val in list(sizes.items()):
            if isinstance(val, list) and len(val) >= 1 and len(set(val)) == 1 and k in case["det_fams"]:
                sizes[k] = val[0]
            elif isinstance(val, list):
                sizes[k] = tuple(val) if rnd[0] % 2 else np.asarray(val, dtype=np.int64)
    return shapes, sizes


def hash_i(s, salt):
    h = salt
    for ch in s:
        h = (h * 131 + ord(ch)) & 0xFFFFFFFF
    return h


def _nodes(items):
    for it in items:
        yield it
        if it[0] in ("flat", "cat", "br"):
            yield from _nodes(it[1])


def plain_sizes(sizes):
    out = {}
    for k, v in sizes.items():
        if isinstance(v, np.ndarray):
            out[k] = [int(x) for x in v.tolist()]
        elif isinstance(v, (list, tuple)):
            out[k] = [int(x) for x in v]
        else:
            out[k] = int(v)
    return out


def quantity(api, counts, env, free, insts, group_of, tpls):
    """Reported quantity of one solution, or None if it depends on a free variable."""
    freeset = set(free)
    if api == "solve_axes":
        d = {}
        for e in insts:
            for l, _ in X.walk_leaves(e):
                if l[0] != "ax":
                    continue
                if l[1] in freeset:
                    return None
                if "." in l[1]:
                    base, i = l[1].split(".")
                    d.setdefault(base, {})[int(i)] = env[l[1]]
                else:
                    d[l[1]] = env[l[1]]
        out = {}
        for k, v in d.items():
            out[k] = [v[i] for i in sorted(v)] if isinstance(v, dict) else v
        # families with zero repetitions are not reported at all
        return out
    shapes = []
    for e in insts:
        if any(l[0] == "ax" and l[1] in freeset for l, _ in X.walk_leaves(e)):
            return None
        env2 = dict(env)
        shapes.append(tuple(X.dims(e, env2)))
    return tuple(shapes)


def normalise_result(api, r):
    if api == "solve_axes":
        out = {}
        for k, v in r.items():
            if isinstance(v, np.ndarray):
                if v.ndim == 0:
                    out[k] = int(v)
                else:
                    out[k] = [int(x) for x in v.tolist()]
            else:
                out[k] = int(v)
        return out
    return tuple(tuple(int(x) for x in s) for s in r)


def evaluate(case, stats):
    import einx

    shapes, sizes = apply_variant(case)
    api = case["api"]
    desc = X.p_desc(case["ins"])
    nested = case.get("nested_inner")
    if nested:
        import re

        desc = re.sub(r"(?<![A-Za-z0-9_])" + re.escape(nested) + r"(?![A-Za-z0-9_])", nested + "...", desc)
        sizes.pop(nested, None)
    tpls = [RS.template_of(e) for e in case["ins"]]
    psizes = plain_sizes(sizes)
    try:
        r = RS.solve(tpls, shapes, psizes)
    except NotImplementedError:
        stats.count("skip:nested")
        return []
    if r["truncated"]:
        stats.count("skip:enumeration_too_large")
        return []
    stats.count("variant:" + case["variant"])
    stats.count("api:" + api)
    if case["large"]:
        stats.count("feat:large")
    if case.get("nested_inner"):
        stats.count("feat:nested_inner_ellipsis")
    if any(it[0] == "cat" for e in case["ins"] for it in _nodes(X.expand(e))):
        stats.count("feat:concat")
    feats_nt = any(it[0] in ("flat", "cat") for e in case["ins"] for it in _nodes(X.expand(e))) or any(X.has_node(e, "ell") for e in case["ins"])
    if feats_nt and not (case["variant"] == "minimal" and all(case["known"]) and not sizes):
        stats.nt([desc_canon(case), [list(s) if s is not None else None for s in shapes], sorted((k, repr(v)) for k, v in psizes.items()), api])
    stats.sample({"api": api, "description": desc, "shapes": [list(s) if s is not None else None for s in shapes], "sizes": psizes, "variant": case["variant"]}, cap=8)

    sols = r["solutions"]
    quants = []
    ambiguous = r["rank_unbounded"]
    for counts, env, free, insts in sols:
        q = quantity(api, counts, env, free, insts, r["group_of"], tpls)
        if q is None:
            ambiguous = True
        else:
            if q not in quants:
                quants.append(q)
    if len(quants) > 1:
        ambiguous = True
    nonempty = len(sols) > 0
    if nested and api == "solve_axes":
        ambiguous = True  # the inner repetition count cannot be reported
    must_fail = (not nonempty) or ambiguous
    must_succeed = False
    if nonempty and not ambiguous:
        ok, _ = RS.unit_propagation_complete(tpls, shapes, psizes)
        # ranks must also follow by single-unknown substitution: approximated by "every family determined by a tensor in
        # which it is the only undetermined top-level family, or by a keyword tuple" (same rule the generator uses)
        must_succeed = ok and rank_chain_complete(case, shapes, psizes)
    stats.count("expect:" + ("must_fail" if must_fail else ("must_succeed" if must_succeed else "may")))

    args = [ShapeOnly(s) if s is not None else None for s in shapes]
    fn = getattr(einx, api)
    where = f"einx.{api}({desc!r}, shapes={[list(s) if s is not None else None for s in shapes]}, sizes={psizes}) [variant {case['variant']}]"
    try:
        with warnings.catch_warnings():
            warnings.simplefilter("ignore")
            res = fn(desc, *args, **sizes)
        outcome = "ok"
    except (einx.errors.RankError, einx.errors.AxisSizeError) as e:
        outcome = "rejected"
        res = e
    except einx.errors.EinxError as e:
        outcome = "rejected_other"
        res = e
    except Exception as e:  # noqa: BLE001
        return [Violation(common.exc_bucket(PROP, e, api), f"{where} raised {type(e).__name__}: {str(e)[:200]}")]
    if api == "matches":
        outcome = "ok" if res is True else "rejected"
    stats.count("outcome:" + outcome)
    if outcome == "ok":
        if not nonempty:
            return [Violation(f"C02|unsound|no_solution|{api}|{case['variant']}", f"{where} succeeded ({res!r}) but no assignment of positive integers satisfies the constraints")]
        if ambiguous:
            ex = [q for q in quants[:2]]
            return [Violation(f"C02|unsound|ambiguous|{api}", f"{where} succeeded ({res!r}) but the reported quantity is not unique: e.g. {ex} (free axes: {sorted(set().union(*[set(s[2]) for s in sols]))}, unbounded repetition count: {r['rank_unbounded']})")]
        if api != "matches":
            got = normalise_result(api, res)
            exp = quants[0]
            if api == "solve_axes":
                exp = {k: v for k, v in exp.items()}
                # zero-repetition families are reported by neither side
                got = {k: v for k, v in got.items() if v != []}
                exp = {k: v for k, v in exp.items() if v != []}
            if got != exp:
                return [Violation(f"C02|wrong_value|{api}|{'large' if case['large'] else 'small'}", f"{where} returned {got!r}, the unique solution is {exp!r}")]
        return []
    if must_succeed:
        return [Violation(f"C02|incomplete|{api}|{type(res).__name__ if not isinstance(res, bool) else 'False'}", f"{where} was rejected ({str(res)[:150]!r}) although every rank and length follows by substituting known values one axis at a time; the unique solution is {quants[0]!r}")]
    return []


def rank_chain_complete(case, shapes, sizes):
    fam_in = []
    for e, s in zip(case["ins"], shapes):
        fs = set()
        G._collect_fams(e, fs, top_only=True)
        fam_in.append((fs, s is not None))
    allf = set()
    for e in case["ins"]:
        G._collect_fams(e, allf)
    det = {k for k, v in sizes.items() if isinstance(v, list)}
    changed = True
    while changed:
        changed = False
        for fs, known in fam_in:
            if not known:
                continue
            unk = [f for f in fs if f not in det]
            if len(unk) == 1:
                det.add(unk[0])
                changed = True
    # "(s ds)..." pairs share their count
    return all(f in det or any(g in det for g in _partners(case, f)) for f in allf)


def _partners(case, f):
    out = set()
    for e in case["ins"]:
        for it in G.X_iter(e):
            if it[0] == "ell":
                names = [l[1] for l, _ in X.walk_leaves(it[1]) if l[0] == "ax"]
                if f in names:
                    out.update(names)
    return out


def desc_canon(case):
    m = {}

    def ren(items):
        out = []
        for it in items:
            t = it[0]
            if t == "ax":
                out.append(["ax", m.setdefault(it[1].split(".")[0], f"n{len(m)}")])
            elif t == "num":
                out.append(["num", it[1]])
            elif t == "ell":
                out.append(["ell", ren(it[1]), it[2]])
            else:
                out.append([t, ren(it[1])])
        return out

    return [ren(e) for e in case["ins"]]


def replay_case(case):
    return evaluate(case, common.Stats())


def make_strategy(tier, k):
    return c02_case(tier)


def worker(k, n, tier, seed, known_buckets, extra):
    return standard_worker(PROP, make_strategy(tier, k), evaluate, k, n, tier, seed, known_buckets, quick_examples=4000, thorough_examples=200000)


def run(tier, seed, known_buckets):
    return standard_run(PROP, tier, seed, known_buckets)

"""C01 -- every built-in operation computes exactly its loop-notation meaning."""

import warnings

import numpy as np

from .. import common, gen as G, loopsem as L, expr as X, loopvmap as LV
from ..common import Violation
from ._base import standard_run, standard_worker

PROP = "C01"
RULE = (
    "Hypothesis draws abstract calls (operation, input/output expressions with flatten/concat/ellipsis/"
    "brackets/numbers/diagonal/squeeze/broadcast, axis lengths from {1,1,2,2,3,3,4,5}, minimal keyword sizes, "
    "backend in {None,numpy,numpy.numpylike,numpy.einsum,numpy.loopvmap (the vmap adapter chain over a numpy loop vmap, einxverif/loopvmap.py)}, integer-permutation/float data) constructively per "
    "operation family; the printed description is executed by einx and compared with a literal loop "
    "interpreter. Non-trivial: >=2 axes longer than 1 and one of permutation/flatten/concat/ellipsis>=2/"
    "diagonal/broadcast/squeeze/scattered brackets/inputs with different axis sets; distinct by "
    "(op, canonicalised expressions, shapes, backend)."
)
ASSUMPTIONS = [
    "only numpy is importable in this sandbox: back ends are numpy, numpy.numpylike, numpy.einsum and numpy.loopvmap = einx's own jax.vmap back end assembled over numpy and a Python-loop vmap (einxverif/loopvmap.py)",
    "reference semantics are the loop interpreter einxverif/loopsem.py written from the documentation",
    "argmax/argmin/sort/argsort only on all-distinct data; no zero divisors; no NaN/inf; dtype not compared",
    "set_at with competing updates: any of the competing values is accepted",
    "zero-length dimensions are outside the domain",
]


def call_einx(case, arrays, graph=False):
    import einx

    if case.get("backend") == LV.NAME:
        LV.backend()
    fn = getattr(einx, case["op"])
    kwargs = dict(case["sizes"])
    for k, v in (case.get("opts") or {}).items():
        kwargs[k] = v
    if case.get("backend") is not None:
        kwargs["backend"] = case["backend"]
    if graph:
        kwargs["graph"] = True
    with warnings.catch_warnings():
        warnings.simplefilter("ignore")
        return fn(case["desc"], *arrays, **kwargs)


def unsupported_allowed(case):
    b, op = case.get("backend"), case["op"]
    if b == "numpy.einsum":
        return op not in G.EINSUM_OPS
    if b == "numpy.numpylike":
        return op == "dot" and len(case["ins"]) != 2
    if b == LV.NAME:
        return op in G.UPDATE or op == "dot"  # documented limits: two operands, exactly one contraction axis
    return False


def value_class(case, feats):
    """Input-class predicate naming the root cause family of a wrong value (bucket granularity)."""
    tags = [k for k in ("diagonal", "concat", "ellipsis", "flatten", "broadcast", "squeeze") if feats.get(k)]
    return G.family_of(case["op"]) + ":" + "+".join(tags)


C01_BACKENDS = [None, "numpy", "numpy.numpylike", "numpy.einsum", "numpy.loopvmap", "numpy.loopvmap"]


def evaluate(case, stats):
    import einx

    if case.get("backend") == LV.NAME:
        LV.backend()
    feats = G.features(case)
    arrays = G.build_arrays(case)
    try:
        expected = L.run_op(case["op"], case["ins"], case["outs"], case["env"], arrays, case.get("opts"))
    except L.Unsupported as e:
        stats.count("harness:reference_unsupported")
        stats.extra.setdefault("reference_unsupported_samples", [])
        if len(stats.extra["reference_unsupported_samples"]) < 3:
            stats.extra["reference_unsupported_samples"].append([case["op"], case["desc"], str(e)])
        return []
    stats.count("op:" + case["op"])
    stats.count("backend:" + str(case.get("backend")))
    for k, v in feats.items():
        if v is True:
            stats.count("feat:" + k)
    if G.nontrivial(feats):
        stats.nt(G.canon_key(case))
    stats.sample({"op": case["op"], "desc": case["desc"], "shapes": [list(a.shape) for a in arrays], "sizes": case["sizes"], "backend": case.get("backend")})
    ins_copy = [a.copy() for a in arrays]
    try:
        got = call_einx(case, ins_copy)
    except einx.errors.OperationNotSupportedError as e:
        stats.count("outcome:unsupported")
        if unsupported_allowed(case):
            return []
        return [Violation(f"C01|unsupported|{case.get('backend')}|{case['op']}", f"{case['op']}({case['desc']!r}) backend={case.get('backend')}: {e}")]
    except Exception as e:  # noqa: BLE001
        stats.count("outcome:exception")
        return [
            Violation(
                common.exc_bucket(PROP, e.__cause__ if isinstance(e, einx.errors.CallOperationError) and e.__cause__ else e, G.family_of(case["op"])),
                f"well-formed call raised {type(e).__name__}: {case['op']}({case['desc']!r}, shapes={[a.shape for a in arrays]}, sizes={case['sizes']}, backend={case.get('backend')}): {str(e)[:300]}",
            )
        ]
    stats.count("outcome:ok")
    if len(case["outs"]) == 1:
        got = (got,)
    if not isinstance(got, tuple) or len(got) != len(expected):
        return [Violation(f"C01|arity|{G.family_of(case['op'])}", f"expected {len(expected)} outputs, got {type(got).__name__}")]
    for j, (e, g) in enumerate(zip(expected, got)):
        msg = L.compare(e, g)
        if msg is not None:
            return [
                Violation(
                    f"C01|value|{value_class(case, feats)}",
                    f"{case['op']}({case['desc']!r}, shapes={[a.shape for a in arrays]}, sizes={case['sizes']}, opts={case.get('opts')}, backend={case.get('backend')}) output {j}: {msg}",
                    {"expected": e.tolist() if e.dtype != object else None, "got": np.asarray(g).tolist()},
                )
            ]
    return []


def replay_case(case):
    return evaluate(case, common.Stats())


def make_strategy(tier, k):
    return G.stratified_case(k, quick=(tier == "quick"), backends=C01_BACKENDS)


def worker(k, n, tier, seed, known_buckets, extra):
    return standard_worker(PROP, make_strategy(tier, k), evaluate, k, n, tier, seed, known_buckets, quick_examples=3000, thorough_examples=150000)


def run(tier, seed, known_buckets):
    return standard_run(PROP, tier, seed, known_buckets)

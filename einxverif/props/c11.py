"""C11 -- backend selection follows the documented precedence and is stable."""

import itertools
import json
import os
import subprocess
import sys
import types

import hypothesis
from hypothesis import HealthCheck, Phase, settings
from hypothesis import strategies as st
from hypothesis.stateful import RuleBasedStateMachine, initialize, invariant, precondition, rule, run_state_machine_as_test

from .. import common
from ..common import Violation

PROP = "C11"
RULE = (
    "A Hypothesis rule-based state machine drives fresh BackendRegistry objects populated with synthetic frameworks (fake "
    "module name, own tensor class, 1-4 backends with priorities from {-5,-1,0,0,3}, registered eagerly or on import, "
    "healthy or raising factories; a numpy-like framework accepting a plain array class and Python scalars through a "
    "backend named 'numpy'): rules register a framework (backends in a drawn order), import a module, look up by object / "
    "name / tensor tuple (incl. scalars, mixed frameworks, unknown names), enter/exit nested with-blocks. Every lookup is "
    "compared with a reference model of the documented chain (object > name > innermost with > unique highest priority "
    "among backends accepting >=1 argument; all scalars -> numpy; 0 or >=2 -> BackendResolutionError; unknown name -> "
    "ValueError; failed factory -> ImportBackendError on use only). Real-interpreter scenarios: child processes import einx "
    "with fake broken torch/jax/mlx/tensorflow/tinygrad modules (subsets) and check that numpy calls work and that selecting "
    "a broken backend raises ImportBackendError. Non-trivial: a lookup with >=2 candidate backends, after a lazy registration, "
    "inside a with-block, or involving a failed factory; distinct by (configuration, lookup)."
)
ASSUMPTIONS = [
    "as the property's quantifier states: frameworks accept disjoint tensor types and all backends of a framework are registered by the same step",
    "invalid backend= argument types are outside the domain",
    "fake modules are inserted into and removed from sys.modules by the harness",
]


class PlainArray:
    pass


def make_tensor_class(i):
    return type(f"FakeTensor{i}", (), {})


class Model:
    """Reference model of the documented selection chain."""

    def __init__(self):
        self.eager = []  # (name, priority, accepts: set of classes, healthy)
        self.lazy = {}  # module -> list of (name, priority, accepts, healthy)
        self.stack = []

    def available(self):
        out = list(self.eager)
        for mod, bs in self.lazy.items():
            if mod in sys.modules:
                out.extend(bs)
        return out

    def by_name(self, name):
        for b in self.available():
            if b[0] == name:
                return b
        return None

    def lookup(self, backend, tensors):
        if isinstance(backend, tuple) and backend[0] == "obj":
            return ("backend", backend[1])
        if isinstance(backend, str):
            b = self.by_name(backend)
            if b is None:
                return ("exc", "ValueError")
            return ("backend", b[0]) if b[3] else ("invalid", b[0])
        if self.stack:
            return ("backend", self.stack[-1]) if not self.stack[-1].startswith("!") else ("invalid", self.stack[-1][1:])
        scalars = all(isinstance(t, (int, float, bool)) for t in tensors)
        cands = []
        for b in self.available():
            if b[3] and any(type(t) in b[2] for t in tensors):
                cands.append(b)
        if scalars:
            b = self.by_name("numpy")
            if b is None:
                return ("exc", "ValueError")
            cands = [b]
        if len(cands) > 1:
            m = max(b[1] for b in cands)
            cands = [b for b in cands if b[1] == m]
        if len(cands) == 1:
            return ("backend", cands[0][0]) if cands[0][3] else ("invalid", cands[0][0])
        return ("exc", "BackendResolutionError")


def build_machine(stats, seed, max_examples, steps):
    from einx._src.frontend.backend import Backend, BackendRegistry, InvalidBackend
    from einx.errors import BackendResolutionError, ImportBackendError

    found = {}

    class Machine(RuleBasedStateMachine):
        def __init__(self):
            super().__init__()
            self.reg = BackendRegistry()
            self.model = Model()
            self.mods = []
            self.frameworks = {}
            self.objs = {}
            self.history = []
            self.counter = 0
            # the numpy-like framework is always present (eagerly), as in einx itself
            self._register_framework(0, "numpylike", [("numpy", -1, True), ("numpy.alt", -5, True)], lazy=False, order=[0, 1], classes={PlainArray, int, float, bool})

        def teardown(self):
            for m in self.mods:
                sys.modules.pop(m, None)

        def _backend(self, name, priority, accepts):
            def is_supported_tensor(t, accepts=accepts):
                return type(t) in accepts

            return Backend(ops={}, name=name, priority=priority, optimizations=[], compiler=None, is_supported_tensor=is_supported_tensor, get_shape=lambda t: ())

        def _register_framework(self, idx, modname, backends, lazy, order, classes):
            self.frameworks[idx] = {"mod": modname, "classes": classes, "backends": backends}
            entries = []
            for j in order:
                name, prio, healthy = backends[j]
                accepts = set(classes)
                if lazy:
                    def factory(name=name, prio=prio, accepts=accepts, healthy=healthy):
                        if not healthy:
                            raise RuntimeError("factory failed")
                        b = self._backend(name, prio, accepts)
                        self.objs[name] = b
                        return b

                    self.reg.register_on_import(modname, name, factory)
                else:
                    if healthy:
                        b = self._backend(name, prio, accepts)
                    else:
                        b = InvalidBackend(name, "failed", priority=prio)
                    self.objs[name] = b
                    self.reg.register(b)
                entries.append((name, prio, accepts, healthy))
            if lazy:
                self.model.lazy.setdefault(modname, []).extend(entries)
            else:
                self.model.eager.extend(entries)
            self.history.append(("register", modname, [b[0] for b in entries], "lazy" if lazy else "eager"))

        @rule(
            nb=st.integers(1, 4),
            prios=st.lists(st.sampled_from([-5, -1, 0, 0, 3]), min_size=4, max_size=4),
            healthy=st.lists(st.sampled_from([True, True, True, False]), min_size=4, max_size=4),
            lazy=st.booleans(),
            perm=st.permutations([0, 1, 2, 3]),
        )
        def register_framework(self, nb, prios, healthy, lazy, perm):
            if len(self.frameworks) >= 5:
                return
            self.counter += 1
            idx = self.counter
            modname = f"einxverif_fakefw_{id(self)}_{idx}"
            cls = make_tensor_class(idx)
            backends = [(f"fw{idx}.b{j}" if j else f"fw{idx}", prios[j], healthy[j]) for j in range(nb)]
            order = [p for p in perm if p < nb]
            self._register_framework(idx, modname, backends, lazy, order, {cls})
            self.frameworks[idx]["cls"] = cls
            self.frameworks[idx]["lazy"] = lazy

        @precondition(lambda self: any(f.get("lazy") and f["mod"] not in sys.modules for f in self.frameworks.values()))
        @rule(k=st.integers(0, 10))
        def import_module(self, k):
            cands = [f for f in self.frameworks.values() if f.get("lazy") and f["mod"] not in sys.modules]
            f = cands[k % len(cands)]
            sys.modules[f["mod"]] = types.ModuleType(f["mod"])
            self.mods.append(f["mod"])
            self.history.append(("import", f["mod"]))

        def _tensor(self, code):
            if code == "array":
                return PlainArray()
            if code == "int":
                return 3
            if code == "float":
                return 2.5
            idx = code
            f = self.frameworks.get(idx)
            if f is None or "cls" not in f:
                return PlainArray()
            if f.get("lazy") and f["mod"] not in sys.modules:
                # a tensor of a framework cannot exist before that framework's module has been imported
                return PlainArray()
            return f["cls"]()

        @rule(
            how=st.sampled_from(["tensors", "tensors", "tensors", "name", "obj", "unknown"]),
            tcodes=st.lists(st.one_of(st.sampled_from(["array", "int", "float"]), st.integers(1, 5)), min_size=0, max_size=3),
            k=st.integers(0, 20),
        )
        def lookup(self, how, tcodes, k):
            tensors = tuple(self._tensor(c) for c in tcodes)
            names = sorted(self.objs.keys())
            all_names = [b[0] for bs in [self.model.eager] + list(self.model.lazy.values()) for b in bs]
            if how == "name" and all_names:
                arg = all_names[k % len(all_names)]
                marg = arg
            elif how == "obj" and names:
                nm = names[k % len(names)]
                arg = self.objs[nm]
                marg = ("obj", nm)
            elif how == "unknown":
                arg = "no_such_backend"
                marg = arg
            else:
                arg, marg = None, None
            expected = self.model.lookup(marg, tensors)
            if isinstance(marg, tuple):  # a backend object is used as given; a failed one raises when used
                expected = ("invalid", marg[1]) if isinstance(arg, InvalidBackend) else ("backend", marg[1])
            try:
                got = self.reg.get(arg, list(tensors))
                if isinstance(got, InvalidBackend):
                    try:
                        got.raise_on_import_failure()
                        actual = ("invalid_no_raise", got.name)
                    except ImportBackendError:
                        actual = ("invalid", got.name)
                else:
                    got.raise_on_import_failure()
                    actual = ("backend", got.name)
            except BackendResolutionError:
                actual = ("exc", "BackendResolutionError")
            except ValueError:
                actual = ("exc", "ValueError")
            except Exception as e:  # noqa: BLE001
                actual = ("exc", type(e).__name__)
            stats.evaluations_lookups = getattr(stats, "evaluations_lookups", 0) + 1
            stats.count("lookups")
            stats.count("lookup:" + how)
            ncand = len([b for b in self.model.available() if b[3] and any(type(t) in b[2] for t in tensors)])
            lazy_done = any(f.get("lazy") and f["mod"] in sys.modules for f in self.frameworks.values())
            failed = any(not b[3] for b in self.model.available())
            if ncand >= 2 or lazy_done or self.model.stack or failed:
                stats.nt([self.history_key(), how, [str(c) for c in tcodes], k if how != "tensors" else 0])
            if ncand >= 2:
                stats.count("feat:several_candidates")
            if lazy_done:
                stats.count("feat:after_lazy_registration")
            if self.model.stack:
                stats.count("feat:inside_with")
            if failed:
                stats.count("feat:failed_factory_present")
            self.history.append(("lookup", how, [str(c) for c in tcodes], str(marg), expected, actual))
            if expected[0] == "obj":
                expected = ("backend", expected[1])
            if actual != expected:
                key = f"C11|mismatch|{how}|{expected[0]}:{actual[0]}"
                msg = f"lookup(backend={marg!r}, tensor kinds={tcodes}) -> {actual}, documented chain gives {expected}; history: {self.history[-12:]}"
                if key not in found:
                    found[key] = {"bucket": key, "message": msg, "case": {"kind": "machine", "seed": seed, "history": [list(map(str, h)) for h in self.history]}, "detail": {}}
                raise AssertionError(msg)

        def history_key(self):
            return [h for h in self.history if h[0] in ("register", "import", "enter", "exit")]

        @rule(k=st.integers(0, 20))
        def enter(self, k):
            names = sorted(self.objs.keys())
            if not names or len(self.model.stack) >= 3:
                return
            nm = names[k % len(names)]
            b = self.objs[nm]
            self.reg.enter(b)
            self.model.stack.append(nm if not isinstance(b, InvalidBackend) else "!" + nm)
            self.history.append(("enter", nm))

        @precondition(lambda self: len(self.model.stack) > 0)
        @rule()
        def exit(self):
            nm = self.model.stack.pop()
            self.reg.exit(self.objs[nm.lstrip("!")])
            self.history.append(("exit", nm))

        @invariant()
        def stack_agrees(self):
            actual = [b.name for b in self.reg.state.use_stack]
            expected = [n.lstrip("!") for n in self.model.stack]
            if actual != expected:
                key = "C11|stack"
                found.setdefault(key, {"bucket": key, "message": f"use_stack {actual} != model {expected}", "case": {"kind": "machine", "seed": seed, "history": [list(map(str, h)) for h in self.history]}, "detail": {}})
                raise AssertionError("stack mismatch")

    Machine.TestCase.settings = settings(
        max_examples=max_examples,
        stateful_step_count=steps,
        deadline=None,
        database=None,
        report_multiple_bugs=False,
        suppress_health_check=list(HealthCheck),
        phases=[Phase.generate, Phase.shrink],
        print_blob=False,
    )
    return Machine, found


# ------------------------------------------------------------------ real-interpreter scenarios

FRAMEWORKS = ["torch", "jax", "mlx", "tensorflow", "tinygrad"]

CHILD = r"""
import sys, types, json
broken = json.loads(sys.argv[1])
for name in broken:
    sys.modules[name] = types.ModuleType(name)   # importable but empty: every backend factory of it must fail
import numpy as np
out = {}
try:
    import einx
    x = np.arange(6.0).reshape(2, 3)
    try:
        out["numpy_call"] = ["ok", einx.sum("a [b]", x).tolist()]
    except Exception as e:
        out["numpy_call"] = ["exc", type(e).__name__, str(e)[:200]]
    try:
        out["scalar_call"] = ["ok", float(einx.add(", ", 1.0, 2.0))]
    except Exception as e:
        out["scalar_call"] = ["exc", type(e).__name__, str(e)[:200]]
    try:
        out["named_numpy"] = ["ok", einx.sum("a [b]", x, backend="numpy").tolist()]
    except Exception as e:
        out["named_numpy"] = ["exc", type(e).__name__, str(e)[:200]]
    for name in broken:
        try:
            einx.sum("a [b]", x, backend=name)
            out["select:" + name] = ["ok"]
        except Exception as e:
            out["select:" + name] = ["exc", type(e).__name__, str(e)[:120]]
    try:
        einx.sum("a [b]", x, backend="no_such_backend")
        out["unknown"] = ["ok"]
    except Exception as e:
        out["unknown"] = ["exc", type(e).__name__]
except Exception as e:
    out["import"] = ["exc", type(e).__name__, str(e)[:200]]
print(json.dumps(out))
"""


def run_scenario(broken):
    env = dict(os.environ)
    p = subprocess.run([sys.executable, "-c", CHILD, json.dumps(broken)], capture_output=True, text=True, env=env, cwd=common.VERIF, timeout=300)
    if p.returncode != 0:
        raise common.HarnessError(f"scenario child failed: {p.stderr[-1500:]}")
    return json.loads(p.stdout.strip().splitlines()[-1])


def check_scenario(broken, stats):
    out = run_scenario(broken)
    stats.count("scenarios")
    stats.nt(["scenario", broken])
    stats.sample({"kind": "scenario", "broken_modules": broken, "outcome": out}, cap=2)
    viols = []

    def v(kind, msg):
        viols.append({"bucket": f"C11|scenario|{kind}|{'+'.join(broken) or 'none'}", "message": msg, "case": {"kind": "scenario", "broken": broken}, "detail": out})

    if "import" in out:
        v("import", f"importing einx with broken modules {broken} failed: {out['import']}")
        return viols
    for key in ("numpy_call", "scalar_call", "named_numpy"):
        if out[key][0] != "ok":
            v(key, f"with broken framework modules {broken} present, a pure numpy call ({key}) fails: {out[key]}")
    if out["numpy_call"][0] == "ok" and out["numpy_call"][1] != [3.0, 12.0]:
        v("value", f"numpy call returned {out['numpy_call'][1]}")
    for name in broken:
        r = out["select:" + name]
        if r[0] == "ok" or r[1] != "ImportBackendError":
            v("select:" + name, f"selecting broken backend {name!r} -> {r}, expected ImportBackendError")
    if out["unknown"] != ["exc", "ValueError"]:
        v("unknown", f"unknown backend name -> {out['unknown']}, expected ValueError")
    return viols


# ------------------------------------------------------------------ glue


def evaluate_machine(k, n, tier, seed, stats):
    per = int((1500 if tier == "quick" else 100000) * common.SCALE) // n + 1
    Machine, found = build_machine(stats, seed * 1000 + k, per, 30)
    try:
        run_state_machine_as_test(hypothesis.seed(seed * 1000 + k)(Machine), settings=Machine.TestCase.settings)
    except AssertionError:
        pass
    except common.HarnessError:
        raise
    except BaseException as e:  # noqa: BLE001
        if not found:
            raise common.HarnessError(f"state machine harness failure: {type(e).__name__}: {e}") from e
    return list(found.values())


def replay_case(case):
    stats = common.Stats()
    if case["kind"] == "scenario":
        return [Violation(v["bucket"], v["message"]) for v in check_scenario(case["broken"], stats)]
    Machine, found = build_machine(stats, case["seed"], 60, 30)
    try:
        run_state_machine_as_test(hypothesis.seed(case["seed"])(Machine), settings=Machine.TestCase.settings)
    except BaseException:  # noqa: BLE001
        pass
    return [Violation(v["bucket"], v["message"]) for v in found.values()]


def worker(k, n, tier, seed, known_buckets, extra):
    stats = common.Stats()
    viols = evaluate_machine(k, n, tier, seed, stats)
    stats.evaluations = stats.hist.get("lookups", 0)
    subsets = []
    for r in range(0, len(FRAMEWORKS) + 1):
        for c in itertools.combinations(FRAMEWORKS, r):
            subsets.append(list(c))
    if tier == "quick":
        subsets = [s for s in subsets if len(s) <= 1 or len(s) == len(FRAMEWORKS)]
    mine = [s for i, s in enumerate(subsets) if i % n == k]
    for s in mine:
        viols.extend(check_scenario(s, stats))
        stats.evaluations += 1
    fr = stats.to_fragment()
    fr["violations"] = [v for v in viols if v["bucket"] not in known_buckets]
    for v in viols:
        if v["bucket"] in known_buckets:
            fr["excluded"][v["bucket"]] = fr["excluded"].get(v["bucket"], 0) + 1
    return fr


def run(tier, seed, known_buckets):
    frags = common.run_workers(PROP, common.NWORKERS, tier, seed, known_buckets, None)
    return common.merge_fragments(frags)

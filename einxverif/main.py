"""./check <ID> [--tier quick|thorough] [--replay FILE]"""

import argparse
import importlib
import json
import os
import sys
import time

from . import common
from .common import HarnessError


def _load_case(path):
    if not os.path.isabs(path):
        path = os.path.join(common.VERIF, path)
    with open(path) as f:
        body = json.load(f)
    return body


def main(argv=None):
    ap = argparse.ArgumentParser()
    ap.add_argument("prop")
    ap.add_argument("--tier", default=os.environ.get("VERIF_TIER", "quick"), choices=["quick", "thorough"])
    ap.add_argument("--replay", default=None)
    args = ap.parse_args(argv)
    prop = args.prop.upper()
    seed = common.seed_value()
    t0 = time.time()
    try:
        common.import_einx()
        mod = importlib.import_module(f"einxverif.props.{prop.lower()}")
        if args.replay:
            body = _load_case(args.replay)
            viols = mod.replay_case(body["case"])
            if viols:
                for v in viols:
                    print(f"replay: {v.bucket}: {v.message}")
                print(f"VIOLATION property={prop} replay={args.replay}")
                return 1
            print(f"replay passes: property={prop} file={args.replay}")
            return 0

        nviol = 0
        known_buckets = set()
        fixed_regressions = []
        for e in common.load_known(prop):
            body = _load_case(e["replay"])
            viols = mod.replay_case(body["case"])
            buckets = {v.bucket for v in viols}
            if e.get("status") == "known":
                if e["bucket"] in buckets:
                    print(f"KNOWN-FINDING: property={prop} {e['what']} [bucket {e['bucket']}; replay {e['replay']}]")
                    known_buckets.add(e["bucket"])
                    for b in e.get("also_buckets", []):
                        known_buckets.add(b)
                else:
                    print(f"note: known finding no longer reproduces, nothing is excluded for it: {e['what']}")
                other = buckets - {e["bucket"]} - set(e.get("also_buckets", []))
                if other:
                    # the saved input now fails differently: that is a new violation
                    fixed_regressions.append((e["replay"], sorted(other)))
            elif e.get("status") == "fixed":
                if viols:
                    fixed_regressions.append((e["replay"], sorted(buckets)))
        for rp, buckets in fixed_regressions:
            print(f"regression on saved input {rp}: {buckets}")
            print(f"VIOLATION property={prop} replay={rp}")
            nviol += 1

        merged = mod.run(args.tier, seed, known_buckets)
        seen = set()
        for v in merged["violations"]:
            if v["bucket"] in seen:
                continue
            seen.add(v["bucket"])
            path = common.write_replay(prop, v)
            print(f"violation bucket={v['bucket']}: {v['message']}")
            print(f"VIOLATION property={prop} replay={os.path.relpath(path, common.VERIF)}")
            nviol += 1
        for n in merged.get("notes", []):
            print(f"note: {n}")
        merged["hist"]["buckets_seen_new"] = len(seen)
        path = common.write_evidence(
            prop,
            args.tier,
            seed,
            merged,
            rule=mod.RULE,
            wall_s=time.time() - t0,
            assumptions=mod.ASSUMPTIONS,
            level=getattr(mod, "LEVEL", "exploration"),
            extra_cov=merged.get("extra_cov"),
            nviol=nviol,
        )
        print(
            f"{prop} tier={args.tier} seed={seed}: evaluations={merged['evaluations']} distinct_nontrivial={len(merged['nontrivial']) + merged.get('nt_extra', 0)} "
            f"excluded_known={sum(merged['excluded'].values())} violations={nviol} wall={time.time() - t0:.1f}s evidence={os.path.relpath(path, common.VERIF)}"
        )
        return 1 if nviol else 0
    except HarnessError as e:
        print(f"HARNESS-ERROR property={prop}: {e}", file=sys.stderr)
        return 2
    except Exception as e:  # noqa: BLE001
        import traceback

        print(f"HARNESS-ERROR property={prop}: {type(e).__name__}: {e}\n{traceback.format_exc()}", file=sys.stderr)
        return 2


if __name__ == "__main__":
    sys.exit(main())

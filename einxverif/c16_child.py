"""Child interpreter for C16: executes a corpus under a given PYTHONHASHSEED / uuid-draw mode / order.

usage: python -m einxverif.c16_child <corpus.json> <config.json> <out.json>
"""

import json
import sys
import uuid
import warnings

import numpy as np


def install_uuid(mode, seed):
    rng = np.random.default_rng(seed)
    state = {"n": 0}
    pool = [int(x) for x in rng.permutation(200000)]

    def uuid4():
        state["n"] += 1
        n = state["n"]
        if mode == "ascending":
            v = (1 << 96) + n  # large like real uuids: einx derives axis names such as "a<int>" from them
        elif mode == "descending":
            v = (1 << 100) - n
        elif mode == "shuffled":
            v = (1 << 90) + pool[n % len(pool)] + (n // len(pool)) * len(pool) + 1
        else:
            raise ValueError(mode)
        return uuid.UUID(int=v)

    if mode != "real":
        uuid.uuid4 = uuid4


def clear_caches(fn):
    cleared = 0
    for cell in fn.__closure__ or ():
        try:
            v = cell.cell_contents
        except ValueError:
            continue
        w = getattr(v, "__wrapped__", None)
        while w is not None:
            if hasattr(w, "cache_clear"):
                w.cache_clear()
                cleared += 1
                break
            w = getattr(w, "__wrapped__", None)
    return cleared


def digest(res):
    if isinstance(res, tuple):
        return ["ok", [digest1(r) for r in res]]
    return ["ok", [digest1(res)]]


def digest1(r):
    a = np.asarray(r)
    return {"shape": list(a.shape), "kind": a.dtype.kind, "values": a.reshape(-1).tolist()}


def main():
    corpus_path, config_path, out_path = sys.argv[1:4]
    corpus = json.load(open(corpus_path))
    cfg = json.load(open(config_path))
    install_uuid(cfg["uuid_mode"], cfg["uuid_seed"])
    warnings.simplefilter("ignore")
    import einx
    from einxverif import gen as G
    from einxverif.props import c01

    results = {}
    graphs = {}
    notes = {"cache_cleared": 0}
    from einxverif.props import c13

    def with_factories(case, arrays):
        if not case.get("fkinds"):
            return arrays
        log = c13.Log()
        out = []
        for i, (a, m, k) in enumerate(zip(arrays, case["fmask"], case["fkinds"])):
            out.append(c13.make_factory(k, i, a, log)[0] if m else a)
        return out

    for idx in cfg["order"]:
        if idx >= len(corpus):
            continue
        case = corpus[idx]
        outs = []
        for rep in range(cfg["reps"][idx]):
            try:
                arrays = G.build_arrays(case)
                for j, newshape in (case.get("corrupt_shape") or {}).items():
                    arrays[int(j)] = np.zeros(newshape, dtype=arrays[int(j)].dtype)
                outs.append(digest(c01.call_einx(case, with_factories(case, arrays))))
            except Exception as e:  # noqa: BLE001
                outs.append(["exc", type(e).__name__, str(e)[-160:]])
        results[str(idx)] = outs
        # two graph=True requests: warm cache, then after clearing the operation's cache (every child checks
        # a third of the entries, so that all entries are covered by some child at a third of the cost)
        if (idx + cfg.get("child_index", 0)) % 3 != 0:
            continue
        try:
            arrays = G.build_arrays(case)
            g1 = c01.call_einx(case, arrays, graph=True)
            g2 = c01.call_einx(case, arrays, graph=True)
            notes["cache_cleared"] += clear_caches(getattr(einx, case["op"]))
            g3 = c01.call_einx(case, arrays, graph=True)
            graphs[str(idx)] = ["ok", g1 == g2, g1 == g3, g1 if (g1 != g2 or g1 != g3) else "", g3 if g1 != g3 else (g2 if g1 != g2 else "")]
        except Exception as e:  # noqa: BLE001
            graphs[str(idx)] = ["exc", type(e).__name__]
    json.dump({"results": results, "graphs": graphs, "notes": notes}, open(out_path, "w"))


if __name__ == "__main__":
    main()

"""S5: pristine zygote for C06.

The zygote imports einx and never makes an einx call itself.  For every request (one JSON line on stdin) it
fork()s a child that executes the request and writes one JSON line to stdout:

    {"kind": "single",  "step": <step>, "with": [backend names]}   -> outcome of that call in a pristine interpreter
    {"kind": "history", "steps": [<step>...]}                      -> list of outcomes of all steps run in sequence
"""

import json
import os
import re
import sys
import warnings

import numpy as np


def alpha_normalise(text):
    """Rename short identifiers by order of first appearance ('up to variable naming')."""
    keep = {"np", "op", "def", "return", "import", "as", "assert", "isinstance", "tuple", "axis", "shape", "dtype", "in", "is", "not", "and", "or", "from", "None", "True", "False", "list", "len", "at"}
    mapping = {}

    def repl(m):
        w = m.group(0)
        if w in keep or w.startswith("const"):
            return w
        if w not in mapping:
            mapping[w] = f"v{len(mapping)}"
        return mapping[w]

    out = []
    for line in text.splitlines():
        if line.startswith("#"):
            line = re.sub(r"0x[0-9a-f]+", "0x", line)
            out.append(line)
            continue
        # do not touch string literals
        parts = re.split(r'("(?:[^"\\]|\\.)*")', line)
        for i in range(0, len(parts), 2):
            parts[i] = re.sub(r"(?<![\w.])[a-z]{1,2}(?![\w(])|(?<![\w.])[a-z]{1,2}(?=\()", repl, parts[i])
        out.append("".join(parts))
    return "\n".join(out)


def digest_value(r):
    def one(x):
        a = np.asarray(x)
        vals = a.reshape(-1)
        if a.dtype.kind == "f":
            vals = np.round(vals.astype(np.float64), 9)
        return {"shape": list(a.shape), "kind": a.dtype.kind, "values": vals.tolist()}

    if isinstance(r, tuple):
        return ["ok", [one(x) for x in r]]
    if isinstance(r, (bool, np.bool_)):
        return ["ok_bool", bool(r)]
    if isinstance(r, dict):
        return ["ok_dict", {k: np.asarray(v).tolist() for k, v in sorted(r.items())}]
    if isinstance(r, str):
        return ["code", alpha_normalise(r)]
    return ["ok", [one(r)]]


class Env:
    """Per-process execution environment of steps."""

    def __init__(self):
        self.entered = []
        self.adapters = {}

    def adapter(self, name):
        import einx

        if name not in self.adapters:
            if name == "adapt_reduce":
                def myred(x, axis, *, scale=1):
                    return scale * np.sum(np.asarray(x) * 2, axis=axis)

                self.adapters[name] = einx.numpy.adapt_numpylike_reduce(myred)
            else:
                def myel(x, y, *, bias=0):
                    return np.asarray(np.asarray(x) - 2 * np.asarray(y) + bias)

                self.adapters[name] = einx.numpy.adapt_numpylike_elementwise(myel)
        return self.adapters[name]

    def run_step(self, step):
        import einx
        from einxverif import gen as G

        kind = step["kind"]
        if kind == "enter":
            b = einx.backend.get(step["backend"])
            b.__enter__()
            self.entered.append(b)
            return ["entered", step["backend"]]
        if kind == "exit":
            if not self.entered:
                return ["noop"]
            b = self.entered.pop()
            try:
                b.__exit__(None, None, None)
            except Exception as e:  # noqa: BLE001
                return ["exc", type(e).__name__]
            return ["exited"]
        case = step["case"]
        arrays = G.build_arrays(case)
        args = []
        for a, k in zip(arrays, step["argkinds"]):
            if k == "nd":
                args.append(a)
            elif k == "pyscalar":
                args.append(a.reshape(-1)[0].item() if a.size else 0.0)
            elif k == "npscalar":
                args.append(a.reshape(-1)[0] if a.size else np.float64(0))
            elif k == "nd0":
                args.append(np.asarray(a.reshape(-1)[0]))
            elif k.startswith("factory"):
                args.append(make_factory(k, a))
            else:
                raise ValueError(k)
        for i, shp in (step.get("corrupt_shape") or {}).items():
            args[int(i)] = np.zeros(shp)
        kw = {}
        for name, v in case["sizes"].items():
            kw[name] = cast_size(v, step["size_kinds"].get(name, "plain"))
        for name, v in (case.get("opts") or {}).items():
            kw[name] = v
        for name, v in (step.get("extra_kwargs") or {}).items():
            kw[name] = cast_size(v[0], v[1])
        if case.get("backend") is not None:
            kw["backend"] = case["backend"]
        if step.get("graph"):
            kw["graph"] = True
        entry = step["entry"]
        if entry.startswith("adapt_"):
            fn = self.adapter(entry)
            kw.pop("backend", None)
        else:
            fn = getattr(einx, entry)
        desc = step.get("desc_override") or case["desc"]
        if entry in ("solve_axes", "solve_shapes", "matches"):
            from einxverif import expr as X

            desc = X.p_desc(case["ins"])
            kw.pop("backend", None)
            kw.pop("graph", None)
        try:
            with warnings.catch_warnings():
                warnings.simplefilter("ignore")
                r = fn(desc, *args, **kw)
            return digest_value(r)
        except Exception as e:  # noqa: BLE001
            return ["exc", type(e).__name__]

    def final_state(self):
        from einx._src.frontend.backend import registry
        import einx._src.tracer.graph as tg

        stack = getattr(tg._dependon, "stack", [])
        return {"use_stack": [b.name for b in registry.state.use_stack], "dependon_depth": len(stack)}


def cast_size(v, kind):
    if isinstance(v, list):
        if kind == "tuple":
            return tuple(v)
        if kind == "array":
            return np.asarray(v)
        return list(v)
    if kind == "float":
        return float(v)
    if kind == "bool":
        return bool(v)
    if kind == "npint":
        return np.int64(v)
    if kind == "npfloat":
        return np.float64(v)
    return v


def make_factory(kind, value):
    if kind == "factory":
        return lambda shape: value
    if kind == "factory_name":
        def f(shape, name=None):
            return value

        return f
    if kind == "factory_kwargs":
        def h(shape, **kw):
            # the value shows how many of the optional keywords (name, arg_index, signature) arrived
            return value * (1 + len(kw))

        return h
    if kind == "factory_raise":
        def g(shape):
            raise RuntimeError("factory failed")

        return g
    if kind == "factory_badshape":
        return lambda shape: np.zeros(tuple(shape) + (2,))
    raise ValueError(kind)


def serve():
    warnings.simplefilter("ignore")
    import einx  # noqa: F401  (import only: the zygote stays pristine)
    import einxverif.gen  # noqa: F401

    out = sys.stdout
    for line in sys.stdin:
        line = line.strip()
        if not line:
            continue
        if line == "quit":
            break
        req = json.loads(line)
        r, w = os.pipe()
        pid = os.fork()
        if pid == 0:
            os.close(r)
            try:
                env = Env()
                if req["kind"] == "single":
                    for b in req.get("with", []):
                        env.run_step({"kind": "enter", "backend": b})
                    res = {"outcome": env.run_step(req["step"])}
                else:
                    outs = [env.run_step(s) for s in req["steps"]]
                    res = {"outcomes": outs, "final": env.final_state()}
            except BaseException as e:  # noqa: BLE001
                import traceback

                res = {"error": f"{type(e).__name__}: {e}\n{traceback.format_exc()[-1500:]}"}
            with os.fdopen(w, "w") as f:
                f.write(json.dumps(res))
            os._exit(0)
        os.close(w)
        with os.fdopen(r) as f:
            data = f.read()
        os.waitpid(pid, 0)
        out.write((data or json.dumps({"error": "child died"})) + "\n")
        out.flush()


if __name__ == "__main__":
    serve()

"""Transformations of abstract calls used by the metamorphic properties (C07, C08)."""

import copy

import numpy as np

from . import expr as X


def map_names(items, f):
    out = []
    for it in items:
        t = it[0]
        if t == "ax":
            out.append(["ax", f(it[1])])
        elif t == "num":
            out.append(list(it))
        elif t == "ell":
            out.append(["ell", map_names(it[1], f), it[2], map_names(it[3], f), it[4] if len(it) > 4 else False])
        else:
            out.append([t, map_names(it[1], f)])
    return out


def rename_case(case, mapping):
    """Consistently rename axes (base names; expanded ellipsis names 'base.i' follow their base)."""

    def f(name):
        if "." in name:
            base, idx = name.split(".", 1)
            return mapping.get(base, base) + "." + idx
        return mapping.get(name, name)

    c = copy.deepcopy(case)
    c["ins"] = [map_names(e, f) for e in case["ins"]]
    c["outs"] = [map_names(e, f) for e in case["outs"]]
    c["env"] = {(k if k.startswith("#") else f(k)): v for k, v in case["env"].items()}
    c["sizes"] = {f(k): v for k, v in case["sizes"].items()}
    c["desc"] = X.p_desc(c["ins"], c["outs"])
    return c


def item_ndims(it):
    """Number of tensor dimensions a top-level item spans."""
    t = it[0]
    if t == "br":
        return sum(item_ndims(c) for c in it[1])
    if t == "ell":
        return sum(item_ndims(c) for c in it[3])
    return 1


def contains_br(it):
    t = it[0]
    if t == "br":
        return True
    if t in ("flat", "cat"):
        return any(contains_br(c) for c in it[1])
    if t == "ell":
        return any(contains_br(c) for c in it[1])
    return False


def contains_kind(it, kind):
    t = it[0]
    if t == kind:
        return True
    if t in ("flat", "cat", "br"):
        return any(contains_kind(c, kind) for c in it[1])
    if t == "ell":
        return any(contains_kind(c, kind) for c in it[1])
    return False


def permute_items(items, order):
    """Reorder top-level items; returns (new items, dim permutation for np.transpose)."""
    spans = []
    pos = 0
    for it in items:
        n = item_ndims(it)
        spans.append(list(range(pos, pos + n)))
        pos += n
    new_items = [items[i] for i in order]
    perm = [d for i in order for d in spans[i]]
    return new_items, perm


def br_order_preserving(items, order):
    """Does `order` keep the relative order of all items that contain brackets?"""
    br_idx = [i for i, it in enumerate(items) if contains_br(it)]
    seq = [i for i in order if i in br_idx]
    return seq == br_idx


def group_run(items, start, stop, env):
    """Replace items[start:stop] by one flattened axis; returns (new items, reshape function on arrays,
    names whose lengths become un-inferable)."""
    run = items[start:stop]
    new_items = items[:start] + [["flat", run]] + items[stop:]
    d0 = sum(item_ndims(it) for it in items[:start])
    dn = sum(item_ndims(it) for it in run)

    def reshape(a):
        a = np.asarray(a)
        shp = list(a.shape)
        merged = int(np.prod(shp[d0 : d0 + dn], dtype=np.int64)) if dn > 0 else 1
        return a.reshape(shp[:d0] + [merged] + shp[d0 + dn :])

    names = [l[1] for l, _ in X.walk_leaves(run) if l[0] == "ax"]
    return new_items, reshape, names


def ungroup(items, idx, env):
    """Replace the top-level flat at idx by its children; returns (new items, reshape fn)."""
    it = items[idx]
    assert it[0] == "flat"
    children = it[1]
    new_items = items[:idx] + children + items[idx + 1 :]
    d0 = sum(item_ndims(x) for x in items[:idx])
    child_dims = X.dims(X.expand(children), env)

    def reshape(a):
        a = np.asarray(a)
        shp = list(a.shape)
        return a.reshape(shp[:d0] + list(child_dims) + shp[d0 + 1 :])

    return new_items, reshape


def all_named_sizes(case):
    """Keyword sizes for every named axis of the call (scalars; lists for ellipsis families)."""
    sizes = {}
    fams = {}
    for k, v in case["env"].items():
        if k.startswith("#"):
            continue
        if "." in k:
            base, idx = k.split(".", 1)
            fams.setdefault(base, {})[int(idx)] = v
        else:
            sizes[k] = v
    for base, d in fams.items():
        sizes[base] = [d[i] for i in sorted(d)]
    # families (also those with zero repetitions, which do not show up in env)
    for e in case["ins"] + case["outs"] + case.get("outs2", []):
        for it in _nodes(e):
            if it[0] == "ell":
                for l, _ in X.walk_leaves(it[1]):
                    if l[0] == "ax":
                        sizes[l[1]] = [case["env"][f"{l[1]}.{i}"] for i in range(it[2])]
    for k, v in case["sizes"].items():
        sizes.setdefault(k, v)
    used = set()
    for e in case["ins"] + case["outs"] + case.get("outs2", []):
        for it in _nodes(e):
            if it[0] == "ax":
                used.add(it[1].split(".")[0])
    return {k: v for k, v in sizes.items() if k in used}


def _nodes(items):
    for it in items:
        yield it
        if it[0] in ("flat", "cat", "br"):
            yield from _nodes(it[1])
        elif it[0] == "ell":
            yield from _nodes(it[1])
            yield from _nodes(it[3])

"""S6: deterministic cooperative thread scheduler driven by a list of choices.

Threads run real Python threads under sys.settrace.  At every 'line' event of a frame whose file is one of the
traced einx files the thread parks until the scheduler hands it the token.  Which ready thread runs next is
taken from `choices` (a value drawn by Hypothesis), so an interleaving is a replayable, shrinkable value.
`registry.use_lock`-style locks are replaced by CoopLock, whose acquire yields to the scheduler instead of
blocking, so a parked lock holder cannot deadlock the run.
"""

import os
import sys
import threading


class Stalled(Exception):
    pass


class Scheduler:
    def __init__(self, choices, traced_files, max_points=400000, only_functions=None):
        self.choices = list(choices)
        self.pos = 0
        self.traced = {os.path.realpath(f) for f in traced_files}
        # optional per-file restriction: {basename: set of function names}; other functions of that file run untraced
        self.only_functions = only_functions or {}
        self.cv = threading.Condition()
        self.current = None
        self.state = {}  # index -> "ready" | "done"
        self.points = 0
        self.max_points = max_points
        self.stalled = False
        self.switches = 0
        self.preempt_in = {}  # index -> set of function names where it was pre-empted while another thread was inside traced code
        self.inside = {}  # index -> current traced function name (or None)
        self.overlap = 0  # number of pre-emptions while >=2 threads were inside registry methods
        self._ident_to_index = {}

    # --- choosing
    def _choose(self, me, blocked=False):
        ready = [i for i, s in self.state.items() if s == "ready"]
        if not ready:
            return None
        if blocked:
            # the current thread waits for a lock: run somebody else (cyclic order) so that the holder makes progress
            others = sorted(i for i in ready if i != me)
            if others:
                if self.pos < len(self.choices):
                    c = self.choices[self.pos]
                    self.pos += 1
                    return others[c % len(others)]
                after = [i for i in others if i > me]
                return (after or others)[0]
            return me
        if self.pos < len(self.choices):
            c = self.choices[self.pos]
            self.pos += 1
            # choice 0 = keep running the current thread if possible (most points are uninteresting)
            if c == 0 and me in ready:
                return me
            return ready[c % len(ready)]
        # choices exhausted: run threads to completion, switching rarely (cyclic order)
        if me in ready and (self.points % 50) != 0:
            return me
        after = sorted(i for i in ready if i > me)
        return after[0] if after else sorted(ready)[0]

    def yield_point(self, me, blocked=False):
        with self.cv:
            self.points += 1
            if self.points > self.max_points:
                self.stalled = True
                self.current = None
                self.cv.notify_all()
                raise Stalled()
            nxt = self._choose(me, blocked)
            if nxt is not None and nxt != me:
                self.switches += 1
                if sum(1 for i, f in self.inside.items() if f and self.state.get(i) == "ready") >= 2:
                    self.overlap += 1
            self.current = nxt
            self.cv.notify_all()
            while self.current != me and not self.stalled:
                self.cv.wait(timeout=5.0)
            if self.stalled:
                raise Stalled()

    def _finish(self, me):
        with self.cv:
            self.state[me] = "done"
            self.inside[me] = None
            ready = [i for i, s in self.state.items() if s == "ready"]
            self.current = ready[0] if ready else None
            if ready and self.pos < len(self.choices):
                self.current = ready[self.choices[self.pos] % len(ready)]
                self.pos += 1
            self.cv.notify_all()

    # --- tracing
    def _make_tracer(self, me):
        def local(frame, event, arg):
            if event == "line":
                self.inside[me] = frame.f_code.co_name
                self.yield_point(me)
            elif event == "return":
                self.inside[me] = None
            return local

        def glob(frame, event, arg):
            if event == "call" and frame.f_code.co_filename in self.traced:
                only = self.only_functions.get(os.path.basename(frame.f_code.co_filename))
                if only is not None and frame.f_code.co_name not in only:
                    return None
                return local
            return None

        return glob

    def run(self, programs):
        """programs: list of callables (one per thread).  Returns list of (result | exception) per thread."""
        n = len(programs)
        results = [None] * n
        for i in range(n):
            self.state[i] = "ready"
            self.inside[i] = None
        self.current = None

        def body(i):
            self._ident_to_index[threading.get_ident()] = i
            with self.cv:
                while self.current != i and not self.stalled:
                    self.cv.wait(timeout=5.0)
            try:
                if self.stalled:
                    raise Stalled()
                sys.settrace(self._make_tracer(i))
                try:
                    results[i] = ("ok", programs[i]())
                finally:
                    sys.settrace(None)
            except Stalled:
                results[i] = ("stalled", None)
            except BaseException as e:  # noqa: BLE001
                results[i] = ("exc", e)
            finally:
                self._finish(i)

        threads = [threading.Thread(target=body, args=(i,), daemon=True) for i in range(n)]
        for t in threads:
            t.start()
        with self.cv:
            first = self.choices[self.pos] % n if self.pos < len(self.choices) else 0
            if self.pos < len(self.choices):
                self.pos += 1
            self.current = first
            self.cv.notify_all()
        for t in threads:
            t.join(timeout=120)
            if t.is_alive():
                self.stalled = True
                with self.cv:
                    self.cv.notify_all()
        return results

    def index(self):
        return self._ident_to_index.get(threading.get_ident())


class CoopLock:
    """Drop-in for threading.Lock whose acquire yields to the scheduler while the lock is taken."""

    def __init__(self, scheduler, reentrant=False):
        self.s = scheduler
        self.owner = None
        self.count = 0
        self.reentrant = reentrant

    def acquire(self, blocking=True, timeout=-1):
        me = self.s.index()
        while True:
            if self.owner is None or (self.reentrant and self.owner == me):
                self.owner = me
                self.count += 1
                return True
            if me is None:
                return False
            self.s.yield_point(me, blocked=True)

    def release(self):
        self.count -= 1
        if self.count == 0:
            self.owner = None

    def __enter__(self):
        self.acquire()
        return self

    def __exit__(self, *a):
        self.release()
        return False

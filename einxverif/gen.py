"""S1: constructive Hypothesis generators of abstract calls (ACM) for every operation family.

A *call case* is a JSON-able dict:

    op, ins, outs (semantic expressions, see expr.py), env (axis lengths), desc (string passed to
    einx), sizes (keyword sizes actually passed), opts (keepdims/shift), backend, data (per input:
    kind + seed), feats (feature vector).
"""

import numpy as np
from hypothesis import strategies as st

from . import expr as X
from . import loopsem as L

NAMES = [
    "a", "b", "c", "d", "e", "f", "g", "h", "i", "j", "k", "l", "m", "n", "p", "q", "r", "s", "t", "u", "v", "w",
    "z", "x1", "y_2", "zz", "_u", "Ab", "B", "long_axis_name", "a0", "ba",
]  # fmt: skip
LENS = [1, 1, 2, 2, 3, 3, 4, 5]
LENS_NO1 = [2, 2, 3, 3, 4, 5]

ELEMENTWISE_BIN = ["subtract", "true_divide", "floor_divide", "divide", "less", "less_equal", "greater", "greater_equal", "equal", "not_equal"]
ELEMENTWISE_NARY = ["add", "multiply", "logical_and", "logical_or", "maximum", "minimum", "logaddexp"]
REDUCE = ["sum", "mean", "var", "std", "prod", "count_nonzero", "any", "all", "max", "min", "logsumexp"]
PRESERVE = ["flip", "roll", "sort", "argsort", "softmax", "log_softmax"]
ARGFIND = ["argmax", "argmin"]
UPDATE = ["set_at", "add_at", "subtract_at"]
ALL_OPS = ["id"] + ELEMENTWISE_BIN + ELEMENTWISE_NARY + ["where"] + REDUCE + ["dot", "get_at"] + UPDATE + PRESERVE + ARGFIND
BACKENDS = [None, "numpy", "numpy.numpylike", "numpy.einsum"]
EINSUM_OPS = {"id", "sum", "multiply", "dot"}


def family_of(op):
    if op == "id":
        return "id"
    if op in ELEMENTWISE_BIN or op in ELEMENTWISE_NARY or op == "where":
        return "elementwise"
    if op in REDUCE:
        return "reduce"
    if op in PRESERVE:
        return "preserve"
    if op in ARGFIND:
        return "argfind"
    if op in UPDATE:
        return "update"
    return op


# ------------------------------------------------------------------ drawing helpers


class Ctx:
    """Per-case drawing context: fresh names and numeric-axis uids."""

    def __init__(self, draw, quick=True):
        self.draw = draw
        self.names = list(draw(st.permutations(NAMES)))
        self.nuid = 0
        self.env = {}
        self.fams = {}  # base name -> list of expanded names
        self.quick = quick
        self.protected = set()  # axes whose length is structural (coordinate counts)
        self.simple = False  # no flattening / extras / output permutation: tensors reach the backend as passed

    def new_axis(self, length=None, no1=False):
        name = self.names.pop()
        if length is not None:
            self.protected.add(name)
        if length is None:
            length = self.draw(st.sampled_from(LENS_NO1 if no1 else LENS))
        self.env[name] = length
        return ["ax", name]

    def new_num(self, value):
        self.nuid += 1
        uid = f"#{self.nuid}"
        self.env[uid] = value
        return ["num", value, uid]

    def new_family(self, k=None, length=None):
        """An ellipsis family: base name with k repetitions."""
        base = self.names.pop()
        if k is None:
            k = self.draw(st.sampled_from([0, 1, 2, 2, 3]))
        members = []
        for i in range(k):
            nm = f"{base}.{i}"
            self.env[nm] = length if length is not None else self.draw(st.sampled_from(LENS))
            members.append(nm)
        self.fams[base] = members
        return base

    def b(self, p=0.5):
        return self.draw(st.floats(0, 1)) < p

    def pick(self, seq):
        return self.draw(st.sampled_from(list(seq)))

    def subset(self, seq, p=0.6, min_size=0):
        seq = list(seq)
        if self.simple:
            p = 0.9
        out = [s for s in seq if self.b(p)]
        while len(out) < min(min_size, len(seq)):
            c = self.pick([s for s in seq if s not in out])
            out.append(c)
        return out

    def perm(self, seq):
        seq = list(seq)
        if len(seq) <= 1 or self.simple:
            return seq
        return list(self.draw(st.permutations(seq)))


# A *unit* is what gets ordered inside a tensor expression:
#   ("leaf", item, bracketed)             item = ["ax",..] or ["num",..]
#   ("fam", base, bracketed, form)        an ellipsis family, form in {"plain","flat1"}
#   ("fam2", base_s, base_d, bracketed_d) the "(s ds)..." family pair


def unit_items(ctx, u):
    if u[0] == "leaf":
        return [["br", [u[1]]]] if u[2] else [u[1]]
    if u[0] == "fam":
        base, br, form = u[1], u[2], u[3]
        tpl = ["ax", base]
        exp = [["ax", m] for m in ctx.fams[base]]
        if form == "flat1":
            tpl = ["flat", [tpl]]
            exp = [["flat", [e]] for e in exp]
        if br:
            tpl = ["br", [tpl]]
            exp = [["br", [e]] for e in exp]
        return [["ell", [tpl], len(exp), exp, False]]
    if u[0] == "fam2":
        s, d, brd = u[1], u[2], u[3]
        td = ["ax", d]
        if brd:
            td = ["br", [td]]
        tpl = ["flat", [["ax", s], td]]
        exp = []
        for ms, md in zip(ctx.fams[s], ctx.fams[d]):
            e = ["ax", md]
            if brd:
                e = ["br", [e]]
            exp.append(["flat", [["ax", ms], e]])
        return [["ell", [tpl], len(exp), exp, False]]
    if u[0] == "fam2b":
        # "[s d]...": a bracket holding two axes under one ellipsis
        s_, d_ = u[1], u[2]
        tpl = ["br", [["ax", s_], ["ax", d_]]]
        exp = [["br", [["ax", ms], ["ax", md]]] for ms, md in zip(ctx.fams[s_], ctx.fams[d_])]
        return [["ell", [tpl], len(exp), exp, False]]
    raise ValueError(u)


def wrap(ctx, units, depth=0, allow_flat=True, extras=True):
    """Turn an ordered list of units into an item list with random flattening / nesting."""
    out = []
    i = 0
    n = len(units)
    if ctx.simple:
        allow_flat = False
        extras = False
    if getattr(ctx, "flags", {}).get("no_extras"):
        extras = False
    while i < n:
        r = ctx.draw(st.integers(0, 9)) if (allow_flat and depth < 2) else 9
        if r < 3:
            m = ctx.draw(st.integers(1, min(3, n - i)))
            inner = wrap(ctx, units[i : i + m], depth + 1, allow_flat, extras=False)
            out.append(["flat", inner])
            i += m
        else:
            out.extend(unit_items(ctx, units[i]))
            i += 1
    out = _merge_br(ctx, out)
    if extras and ctx.b(0.15):
        pos = ctx.draw(st.integers(0, len(out)))
        out.insert(pos, ctx.new_num(1) if ctx.b(0.6) else ["flat", []])
    return out


def _merge_br(ctx, items):
    """Merge adjacent brackets / lift a bracket over a fully bracketed flat (same meaning)."""
    out = []
    for it in items:
        if it[0] == "flat" and it[1] and all(c[0] == "br" for c in it[1]) and ctx.b(0.5):
            inner = []
            for c in it[1]:
                inner.extend(c[1])
            it = ["br", [["flat", inner]]]
        if out and out[-1][0] == "br" and it[0] == "br" and ctx.b(0.6):
            out[-1] = ["br", out[-1][1] + it[1]]
        else:
            out.append(it)
    return out


def leaf_units(axes, bracketed=False):
    return [("leaf", a, bracketed) for a in axes]


# ------------------------------------------------------------------ sizes (keyword constraints)


def compute_sizes(ctx, ins, outs, known_mask=None, extra_eqs=()):
    """Minimal keyword set (w.r.t. unit propagation) + random redundant ones.

    known_mask[i] False => input i is a tensor factory (contributes no constraints)."""
    env = ctx.env
    eins = [X.expand(e) for e in ins]
    eouts = [X.expand(e) for e in outs]
    eqs = list(extra_eqs)
    for i, e in enumerate(eins):
        if known_mask is None or known_mask[i]:
            eqs.extend(X.equations_for(e, X.shape_of(e, env)))
    names = X.all_axis_names(eins + eouts)
    # ellipsis families: is k determinable from ranks?
    fam_of = {}
    for base, members in ctx.fams.items():
        for m in members:
            fam_of[m] = base
    fam_in_tensor = []  # families whose repetition count affects the tensor's rank
    used_fams = set()
    for i, e in enumerate(ins):
        fams_here = set()
        _collect_fams(e, fams_here, top_only=True)
        fam_in_tensor.append(fams_here)
        _collect_fams(e, used_fams)
    for e in outs:
        _collect_fams(e, used_fams)
    det = set()
    changed = True
    while changed:
        changed = False
        for i, fs in enumerate(fam_in_tensor):
            if known_mask is not None and not known_mask[i]:
                continue
            unk = [f for f in fs if f not in det]
            if len(unk) == 1:
                # the family may occur several times in the tensor; still one unknown count
                det.add(unk[0])
                changed = True
    sizes = {}
    fam_tuple_needed = [f for f in used_fams if f not in det]
    known = {}
    for f in sorted(fam_tuple_needed):
        for m in ctx.fams[f]:
            known[m] = env[m]
    solved, _ = X.propagate(eqs, known)
    order = ctx.perm(names)
    for nm in order:
        if nm in solved:
            continue
        base = fam_of.get(nm)
        if base is not None:
            for m in ctx.fams[base]:
                solved[m] = env[m]
            fam_tuple_needed.append(base) if base not in fam_tuple_needed else None
        else:
            sizes[nm] = env[nm]
            solved[nm] = env[nm]
        solved, _ = X.propagate(eqs, solved)
    minimal = dict(sizes)
    minimal_fams = list(dict.fromkeys(fam_tuple_needed))
    # redundant keywords
    for nm in names:
        if nm not in sizes and nm not in fam_of and ctx.b(0.12):
            sizes[nm] = env[nm]
    for f in sorted(used_fams):
        vals = [env[m] for m in ctx.fams[f]]
        if f in minimal_fams:
            if f in det and len(set(vals)) == 1 and len(vals) >= 1 and ctx.b(0.4):
                sizes[f] = vals[0]  # scalar applies to all repetitions (count known from ranks)
            else:
                sizes[f] = list(vals)
        elif ctx.b(0.12) or getattr(ctx, "flags", {}).get("fam_sizes"):
            sizes[f] = list(vals) if (len(set(vals)) != 1 or ctx.b(0.5)) else vals[0]
    return sizes, {"minimal": sorted(minimal), "minimal_fams": minimal_fams, "det_fams": sorted(det)}


def _collect_fams(items, acc, top_only=False):
    for it in items:
        if it[0] == "ell":
            for leaf, _ in X.walk_leaves(it[1]):
                if leaf[0] == "ax":
                    acc.add(leaf[1])
        elif it[0] == "br":
            _collect_fams(it[1], acc, top_only)
        elif it[0] in ("flat", "cat") and not top_only:
            _collect_fams(it[1], acc)


# ------------------------------------------------------------------ data


def make_array(kind, shape, seed, hi=None):
    rng = np.random.default_rng(seed)
    n = int(np.prod(shape)) if len(shape) else 1
    if kind == "perm":
        a = rng.permutation(n).astype(np.int64) - (n // 3)
    elif kind == "smallint":
        a = rng.integers(-3, 4, size=n).astype(np.int64)
    elif kind == "posint":
        a = rng.integers(1, 5, size=n).astype(np.int64)
    elif kind == "bool":
        a = rng.integers(0, 2, size=n).astype(bool)
    elif kind == "float":
        # distinct values on a coarse grid + jitter, away from ties and from 0
        a = (rng.permutation(n).astype(np.float64) - n / 2.0 + 0.37) * 0.53
    elif kind == "posfloat":
        a = (rng.permutation(n).astype(np.float64) + 1.0) * 0.61
    elif kind == "coord":
        a = rng.integers(0, hi, size=n).astype(np.int64)
    else:
        raise ValueError(kind)
    return a.reshape(shape)


def data_kinds_for(op, n_in):
    """Admissible data kinds per input position (sound domain of the elementary function)."""
    if op in ("logical_and", "logical_or", "any", "all"):
        return [["bool", "smallint"]] * n_in
    if op == "where":
        return [["bool"], ["perm", "float"], ["perm", "float"]]
    if op in ("true_divide", "divide"):
        return [["perm", "float"], ["posint", "posfloat"]]
    if op == "floor_divide":
        return [["perm", "smallint"], ["posint"]]
    if op in ("logaddexp", "logsumexp", "softmax", "log_softmax"):
        return [["float", "smallint"]] * n_in
    if op in ("argmax", "argmin", "argsort", "sort", "max", "min", "maximum", "minimum"):
        return [["perm", "float"]] * n_in
    if op in ("mean", "var", "std"):
        return [["perm", "float", "smallint"]] * n_in
    if op == "prod":
        return [["smallint", "posint"]] * n_in
    if op == "count_nonzero":
        return [["smallint", "bool"]] * n_in
    if op in ("less", "less_equal", "greater", "greater_equal", "equal", "not_equal"):
        return [["smallint", "perm"]] * n_in
    return [["perm", "smallint", "float"]] * n_in


# ------------------------------------------------------------------ features


def features(case):
    ins, outs, env = case["ins"], case["outs"], case["env"]
    f = {}
    allx = ins + outs
    f["flatten"] = any(X.has_node(e, "flat") for e in allx)
    f["concat"] = any(X.has_node(e, "cat") for e in allx)
    f["ellipsis"] = any(X.has_node(e, "ell") for e in allx)
    ell2 = False
    for e in allx:
        for it in _iter_nodes(e):
            if it[0] == "ell" and it[2] >= 2:
                ell2 = True
    f["ellipsis_ge2"] = ell2
    diag = False
    for e in ins:
        seen = set()
        for leaf, b in X.walk_leaves(X.expand(e)):
            if not b and leaf[0] == "ax":
                if leaf[1] in seen:
                    diag = True
                seen.add(leaf[1])
    f["diagonal"] = diag
    in_names = set()
    for e in ins:
        for leaf, b in X.walk_leaves(X.expand(e)):
            in_names.add(X.leaf_key(leaf))
    out_names = set()
    for e in outs:
        for leaf, b in X.walk_leaves(X.expand(e)):
            out_names.add(X.leaf_key(leaf))
    f["broadcast"] = any(k not in in_names for k in out_names)
    sq = False
    for e in ins:
        for leaf, b in X.walk_leaves(X.expand(e)):
            if not b and X.leaf_key(leaf) not in out_names:
                sq = True
    f["squeeze"] = sq
    # permutation: relative order of shared un-bracketed names differs between some input and output
    perm = False
    for ei in ins:
        a = [X.leaf_key(l) for l, b in X.walk_leaves(X.expand(ei)) if not b]
        for eo in outs:
            o = [X.leaf_key(l) for l, b in X.walk_leaves(X.expand(eo)) if not b]
            ca = [k for k in dict.fromkeys(a) if k in o]
            co = [k for k in dict.fromkeys(o) if k in a]
            if ca != co:
                perm = True
    f["perm"] = perm
    lens = [v for k, v in env.items()]
    big = [v for v in lens if v > 1]
    f["ge2_axes_gt1"] = len(big) >= 2
    f["equal_lengths"] = len(big) != len(set(big))
    f["len1"] = any(v == 1 for v in lens)
    f["n_in"] = len(ins)
    sets = [frozenset(X.leaf_key(l) for l, b in X.walk_leaves(X.expand(e))) for e in ins]
    f["multi_in_diff_axes"] = len(ins) >= 2 and len(set(sets)) >= 2
    # scattered brackets: bracketed leaves of some tensor not contiguous
    scat = False
    for e in allx:
        flags = [b for l, b in X.walk_leaves(X.expand(e))]
        idx = [i for i, b in enumerate(flags) if b]
        if idx and idx[-1] - idx[0] + 1 != len(idx):
            scat = True
    f["bracket_scattered"] = scat
    f["numeric"] = any(X.has_node(e, "num") for e in allx)
    return f


def _iter_nodes(items):
    for it in items:
        yield it
        if it[0] in ("flat", "cat", "br"):
            yield from _iter_nodes(it[1])
        elif it[0] == "ell":
            yield from _iter_nodes(it[1])


def nontrivial(feats):
    return bool(
        feats["ge2_axes_gt1"]
        and (
            feats["perm"]
            or feats["flatten"]
            or feats["concat"]
            or feats["ellipsis_ge2"]
            or feats["diagonal"]
            or feats["broadcast"]
            or feats["squeeze"]
            or feats["bracket_scattered"]
            or feats["multi_in_diff_axes"]
        )
    )


def canon_key(case):
    """Canonical key of a case: names replaced by order of first appearance, plus shapes."""
    m = {}

    def ren(items):
        out = []
        for it in items:
            t = it[0]
            if t == "ax":
                out.append(["ax", m.setdefault(it[1], f"n{len(m)}")])
            elif t == "num":
                out.append(["num", it[1]])
            elif t == "ell":
                out.append(["ell", ren(it[1]), it[2], ren(it[3])])
            else:
                out.append([t, ren(it[1])])
        return out

    ins = [ren(e) for e in case["ins"]]
    outs = [ren(e) for e in case["outs"]]
    shapes = [list(X.shape_of(X.expand(e), case["env"])) for e in case["ins"]]
    return [case["op"], ins, outs, shapes, case.get("backend"), sorted((case.get("opts") or {}).items())]


# ------------------------------------------------------------------ family generators


def _vector_units(ctx, nmax=4, allow_fam=True):
    """Draw the pool of vectorised units."""
    n = ctx.draw(st.integers(0, nmax))
    units = []
    flags = getattr(ctx, "flags", {})
    if flags.get("force_fam"):
        allow_fam = False
    for _ in range(n):
        r = ctx.draw(st.integers(0, 9))
        if allow_fam and r == 0:
            units.append(("fam", ctx.new_family(), False, "plain"))
        else:
            units.append(("leaf", ctx.new_axis(), False))
    if flags.get("force_fam"):
        length = ctx.draw(st.sampled_from(LENS)) if flags.get("fam_equal") else None
        units.insert(ctx.draw(st.integers(0, len(units))), ("fam", ctx.new_family(length=length), False, "plain"))
    return units


def _unit_len1(ctx, u):
    if u[0] == "leaf":
        it = u[1]
        return (ctx.env[it[1]] if it[0] == "ax" else it[1]) == 1
    if u[0] == "fam":
        return all(ctx.env[m] == 1 for m in ctx.fams[u[1]])
    return False


def _out_units(ctx, in_units_union, allow_broadcast=True, allow_squeeze=True):
    """Output = permutation of the union of input units, minus some length-1 units (squeeze),
    plus output-only broadcast units."""
    units = []
    if ctx.simple:
        return list(in_units_union)
    if getattr(ctx, "flags", {}).get("no_squeeze"):
        allow_squeeze = False
    for u in in_units_union:
        if allow_squeeze and _unit_len1(ctx, u) and ctx.b(0.4):
            continue
        units.append(u)
    if allow_broadcast and ctx.b(0.25):
        for _ in range(ctx.draw(st.integers(1, 2))):
            r = ctx.draw(st.integers(0, 5))
            if getattr(ctx, "flags", {}).get("force_fam") and not getattr(ctx, "flags", {}).get("fam_equal"):
                r = max(r, 1)
            if r == 0 or (getattr(ctx, "flags", {}).get("fam_equal") and r <= 2):
                length = ctx.draw(st.sampled_from(LENS)) if getattr(ctx, "flags", {}).get("fam_equal") else None
                units.append(("fam", ctx.new_family(k=ctx.draw(st.sampled_from([1, 2, 3])), length=length), False, "plain"))
            elif r <= 2:
                units.append(("leaf", ctx.new_num(ctx.draw(st.sampled_from(LENS))), False))
            else:
                units.append(("leaf", ctx.new_axis(), False))
    if ctx.b(0.7):
        units = ctx.perm(units)
    if getattr(ctx, "flags", {}).get("bcast_heavy"):
        # a contiguous block of 2-4 output-only axes (numbers, unit axes, fresh axes): material for einx's common-
        # subexpression pass, whose candidates overlap when such axes sit next to each other inside a composition
        block = []
        for _ in range(ctx.draw(st.integers(2, 4))):
            r = ctx.draw(st.integers(0, 3))
            if r == 0:
                block.append(("leaf", ctx.new_num(1), False))
            elif r <= 2:
                block.append(("leaf", ctx.new_num(ctx.draw(st.sampled_from(LENS_NO1))), False))
            else:
                block.append(("leaf", ctx.new_axis(), False))
        if ctx.b(0.6):
            # ... inside one composition, possibly with a nested one: "(2 (1) 5)"
            items = [u[1] for u in block]
            if ctx.b(0.5):
                j = ctx.draw(st.integers(0, len(items) - 1))
                items[j] = ["flat", [items[j]]]
            block = [("leaf", ["flat", items], False)]
        pos = ctx.draw(st.integers(0, len(units)))
        units = units[:pos] + block + units[pos:]
    return units


def _with_diagonal(ctx, units):
    """Maybe repeat an un-bracketed plain axis inside one input (diagonal)."""
    cands = [u for u in units if u[0] == "leaf" and not u[2] and u[1][0] == "ax"]
    if cands and ctx.b(0.5 if getattr(ctx, "flags", {}).get("more_diag") else 0.12) and not ctx.simple and not getattr(ctx, "flags", {}).get("no_diag"):
        u = ctx.pick(cands)
        pos = ctx.draw(st.integers(0, len(units)))
        units = list(units)
        units.insert(pos, u)
    return units


def _dedupe(units):
    out = []
    for u in units:
        if u not in out:
            out.append(u)
    return out


def gen_elementwise(ctx, op):
    if op == "where":
        n_in = 3
    elif op in ELEMENTWISE_NARY:
        n_in = ctx.draw(st.sampled_from([1, 2, 2, 2, 3, 4]))
        n_in = max(n_in, getattr(ctx, "min_inputs", 0))
    else:
        n_in = 2
    pool = _vector_units(ctx)
    ins_units = []
    for _ in range(n_in):
        us = ctx.perm(ctx.subset(pool, 1.0 if getattr(ctx, "flags", {}).get("full_inputs") else 0.65))
        ins_units.append(_with_diagonal(ctx, us))
    union = _dedupe([u for us in ins_units for u in us])
    out_units = _out_units(ctx, union)
    ins = [wrap(ctx, us) for us in ins_units]
    outs = [wrap(ctx, out_units)]
    return ins, outs, {}


def gen_reduce(ctx, op):
    pool = _vector_units(ctx, 3)
    nred = ctx.draw(st.sampled_from([0, 1, 1, 1, 2, 2, 3]))
    red = []
    for _ in range(nred):
        r = ctx.draw(st.integers(0, 9))
        if r == 0:
            red.append(("fam", ctx.new_family(), True, "plain"))
        elif r == 2 and ctx.b(0.5) and not ctx.simple:
            kk = ctx.draw(st.sampled_from([1, 2, 2]))
            red.append(("fam2b", ctx.new_family(k=kk), ctx.new_family(k=kk), True))
        elif r == 1:
            red.append(("leaf", ctx.new_num(ctx.draw(st.sampled_from(LENS))), True))
        else:
            red.append(("leaf", ctx.new_axis(), True))
    in_units = ctx.perm(pool + red)
    if nred > 0:  # without brackets the auto-bracket rule applies, which forbids repeated names
        in_units = _with_diagonal(ctx, in_units)
    out_units = _out_units(ctx, _dedupe([u for u in in_units if not _is_br(u)]))
    return [wrap(ctx, in_units)], [wrap(ctx, out_units)], {}


def _is_br(u):
    if u[0] == "fam2b":
        return True
    return u[2] if u[0] in ("leaf", "fam") else False


def gen_dot(ctx, op):
    n_in = ctx.draw(st.sampled_from([2, 2, 2, 3]))
    meta = {}
    # a quarter of the two-operand cases: several batch axes shared by both operands, each operand in its own order (the
    # batched-matmul lowering of the numpylike back ends flattens them into one group per operand)
    batch_mode = n_in == 2 and not ctx.simple and ctx.b(0.25)
    if batch_mode:
        pool = [("leaf", ctx.new_axis(no1=True), False) for _ in range(ctx.draw(st.sampled_from([2, 2, 3])))]
        extra = _vector_units(ctx, 2, allow_fam=True)
        ins_units = [list(pool) + ctx.subset(extra, 0.5) for _ in range(n_in)]
        ncon = ctx.draw(st.sampled_from([1, 1, 2]))
        meta["prefer_backend"] = "numpy.numpylike"
    else:
        pool = _vector_units(ctx, 3, allow_fam=True)
        ncon = ctx.draw(st.sampled_from([0, 1, 1, 1, 2, 2]))
        # a third of the cases share most vectorised axes between the operands
        p_sub = ctx.draw(st.sampled_from([0.5, 0.5, 0.9]))
        ins_units = [ctx.subset(pool, p_sub) for _ in range(n_in)]
    for _ in range(ncon):
        a = ("leaf", ctx.new_axis(), True)
        i, j = ctx.draw(st.permutations(range(n_in)))[:2]
        ins_units[i].append(a)
        ins_units[j].append(a)
    ins_units = [ctx.perm(us) for us in ins_units]
    union = _dedupe([u for us in ins_units for u in us if not _is_br(u)])
    # without brackets every axis missing from the output becomes a contracted axis (auto-bracket
    # rule) and must then occur in exactly two inputs: no squeezing / stray "1" in that mode
    auto = ncon == 0
    out_units = _out_units(ctx, union, allow_squeeze=not auto)
    return [wrap(ctx, us, extras=not auto) for us in ins_units], [wrap(ctx, out_units)], meta


def _coord_layout(ctx, K):
    """Split K coordinates over coordinate tensors: list of m (bracket length) or None (no bracket)."""
    parts = []
    rem = K
    force1 = getattr(ctx, "flags", {}).get("coord1")
    while rem > 0:
        m = 1 if (force1 and ctx.b(0.7)) else ctx.draw(st.integers(1, rem))
        if m == 1 and ctx.b(0.5) and not force1:
            parts.append(None)
        else:
            parts.append(m)
        rem -= m
    return parts


def gen_get_at(ctx, op):
    pool = _vector_units(ctx, 3, allow_fam=False)
    extra = [("leaf", ctx.new_axis(), False) for _ in range(ctx.draw(st.integers(0, 2)))]
    K = ctx.draw(st.sampled_from([1, 1, 2, 2, 3]))
    tgt_br = [("leaf", ctx.new_axis(no1=ctx.b(0.8)), True) for _ in range(K)]
    tgt_units = ctx.perm(ctx.subset(pool, 0.6) + tgt_br)
    parts = _coord_layout(ctx, K)
    coord_units = []
    for m in parts:
        us = ctx.subset(pool + extra, 0.5)
        if m is not None:
            leaf = ctx.new_num(m) if ctx.b(0.6) else ctx.new_axis(m)
            us.append(("leaf", leaf, True))
        coord_units.append(ctx.perm(us))
    union = _dedupe([u for us in [tgt_units] + coord_units for u in us if not _is_br(u)])
    out_units = _out_units(ctx, union)
    ins = [wrap(ctx, tgt_units)] + [wrap(ctx, us) for us in coord_units]
    return ins, [wrap(ctx, out_units)], {"coord_parts": parts}


def gen_update(ctx, op):
    pool = _vector_units(ctx, 3, allow_fam=False)
    extra = [("leaf", ctx.new_axis(), False) for _ in range(ctx.draw(st.integers(0, 2)))]
    K = 1 if getattr(ctx, "flags", {}).get("k1") else ctx.draw(st.sampled_from([1, 1, 2, 2, 3]))
    tgt_br = [("leaf", ctx.new_axis(no1=ctx.b(0.8)), True) for _ in range(K)]
    tgt_vec = [] if getattr(ctx, "flags", {}).get("tgt_novec") else ctx.subset(pool, 0.6)
    tgt_units = _interleave(ctx, ctx.perm(tgt_vec), tgt_br)
    parts = _coord_layout(ctx, K)
    coord_units = []
    for m in parts:
        us = ctx.subset(pool + extra, 0.5)
        if m is not None:
            leaf = ctx.new_num(m) if ctx.b(0.6) else ctx.new_axis(m)
            us.append(("leaf", leaf, True))
        coord_units.append(ctx.perm(us))
    upd_only = [("leaf", ctx.new_axis(), False)] if ctx.b(0.08) else []  # axis in the updates only
    upd_units = ctx.perm(ctx.subset(pool + extra, 0.55) + upd_only)
    # output: same bracketed axes in the same order; un-bracketed target axes permuted
    out_vec = [u for u in tgt_vec if not (_unit_len1(ctx, u) and ctx.b(0.3))]
    if ctx.b(0.5):
        out_units = list(tgt_units)
    else:
        out_units = _interleave(ctx, ctx.perm(out_vec), tgt_br)
    ins = [wrap(ctx, tgt_units)] + [wrap(ctx, us) for us in coord_units] + [wrap(ctx, upd_units)]
    return ins, [wrap(ctx, out_units)], {"coord_parts": parts}


def _interleave(ctx, vec, br):
    """Insert bracketed units (keeping their relative order) at random positions among vec."""
    out = list(vec)
    if getattr(ctx, "flags", {}).get("br_adjacent"):
        p0 = ctx.draw(st.integers(0, len(vec)))
        pos = [p0 for _ in br]
    else:
        pos = sorted(ctx.draw(st.integers(0, len(vec))) for _ in br)
    for off, (p, u) in enumerate(zip(pos, br)):
        out.insert(p + off, u)
    return out


def gen_preserve(ctx, op):
    pool = _vector_units(ctx, 3)
    if op in ("sort", "argsort"):
        K = 1
    elif op == "roll":
        K = ctx.draw(st.sampled_from([1, 1, 1, 2, 2, 3]))
    else:
        K = ctx.draw(st.sampled_from([0, 1, 1, 1, 2, 2, 3]))
    br = []
    for _ in range(K):
        r = ctx.draw(st.integers(0, 11))
        if r == 0 and op not in ("sort", "argsort", "roll"):
            br.append(("fam", ctx.new_family(), True, "plain"))
        else:
            br.append(("leaf", ctx.new_axis(), True))
    in_units = _interleave(ctx, _with_diagonal(ctx, ctx.perm(pool)), br)
    out_vec = _out_units(ctx, _dedupe([u for u in in_units if not _is_br(u)]))
    out_units = _interleave(ctx, out_vec, br)
    opts = {}
    if op == "roll":
        nbr = sum(len(ctx.fams[u[1]]) if u[0] == "fam" else 1 for u in br)
        if nbr >= 1 and ctx.b(0.5):
            opts["shift"] = [ctx.draw(st.integers(-3, 6)) for _ in range(nbr)]
        else:
            opts["shift"] = ctx.draw(st.integers(-3, 6))
    return [wrap(ctx, in_units)], [wrap(ctx, out_units)], opts


def gen_argfind(ctx, op):
    pool = _vector_units(ctx, 3)
    k1 = getattr(ctx, "flags", {}).get("k1")
    K = 1 if k1 else ctx.draw(st.sampled_from([1, 1, 2, 2, 3]))
    br = [("leaf", ctx.new_axis(), True) for _ in range(K)]
    in_units = _interleave(ctx, _with_diagonal(ctx, ctx.perm(pool)), br)
    out_vec = _out_units(ctx, _dedupe([u for u in in_units if not _is_br(u)]))
    if K == 1 and ctx.b(0.5) and not k1:
        out_units = out_vec
    else:
        leaf = ctx.new_num(K) if ctx.b(0.7) else ctx.new_axis(K)
        out_units = _interleave(ctx, out_vec, [("leaf", leaf, True)])
    return [wrap(ctx, in_units)], [wrap(ctx, out_units)], {}


def gen_id(ctx, op, pure=False, concat=True, third=None):
    """Blocks: simple pairs or concat blocks (see DESIGN S1).  pure: bijective rearrangement only
    (no diagonal / squeeze / broadcast).  third: list receiving a third expression per block."""
    nblocks = ctx.draw(st.sampled_from([1, 1, 1, 2, 2, 3]))
    ins, outs = [], []
    pool = _vector_units(ctx, 4 if pure else 3, allow_fam=not pure or ctx.b(0.3))
    for _ in range(nblocks):
        if concat and ctx.b(0.08):
            _id_concat2_block(ctx, pool, ins, outs)
        elif concat and ctx.b(0.3):
            _id_concat_block(ctx, pool, ins, outs, pure=pure)
        elif pure:
            us = ctx.perm(ctx.subset(pool, 0.8))
            ins.append(wrap(ctx, us))
            outs.append(wrap(ctx, ctx.perm(us)))
            if third is not None:
                third.append(wrap(ctx, ctx.perm(us)))
        else:
            us = _with_diagonal(ctx, ctx.perm(ctx.subset(pool, 0.7)))
            out_units = _out_units(ctx, _dedupe(us))
            ins.append(wrap(ctx, us))
            outs.append(wrap(ctx, out_units))
    return ins, outs, {}


def _id_concat_block(ctx, pool, ins, outs, pure=False):
    m = ctx.draw(st.sampled_from([2, 2, 3]))
    common = ctx.perm(ctx.subset(pool, 0.6))
    group_in = ctx.b(0.5)
    group_out = True if not group_in else ctx.b(0.5)
    children = []
    for i in range(m):
        r = ctx.draw(st.integers(0, 9))
        if r <= 5:
            children.append(("both", ctx.new_axis()))
        elif r <= 7:
            children.append(("both", ["flat", [ctx.new_axis(), ctx.new_axis()]]))
        elif group_out and not group_in and not pure:
            # present on the output side only: a numeric / named broadcast block
            leaf = ctx.new_num(ctx.draw(st.sampled_from(LENS))) if ctx.b(0.7) else ctx.new_axis()
            children.append(("out", leaf))
        else:
            children.append(("both", ctx.new_axis()))

    def tensor(side, child_items):
        units = list(common)
        pos = ctx.draw(st.integers(0, len(units)))
        items_before = wrap(ctx, units[:pos], extras=False)
        items_after = wrap(ctx, units[pos:], extras=False)
        return items_before + child_items + items_after

    def per_child(side):
        exprs = []
        for kind, ch in children:
            if side == "in" and kind == "out":
                exprs.append(wrap(ctx, ctx.perm([u for u in common if ctx.b(0.8)]), extras=False))
            else:
                units = ctx.perm(list(common))
                pos = ctx.draw(st.integers(0, len(units)))
                exprs.append(wrap(ctx, units[:pos], extras=False) + [ch] + wrap(ctx, units[pos:], extras=False))
        return exprs

    if group_in:
        cat = ["cat", [ch for _, ch in children]]
        if ctx.b(0.2) and not pure:
            extra = ctx.new_axis()
            common = common + [("leaf", extra, False)]
            ins.append(tensor("in", [["flat", [cat, extra]]]))
        else:
            ins.append(tensor("in", [cat]))
    else:
        ins.extend(per_child("in"))
    if group_out:
        cat = ["cat", [ch for _, ch in children]]
        outs.append(tensor("out", [cat]))
    else:
        outs.extend(per_child("out"))


def _id_concat2_block(ctx, pool, ins, outs):
    """Two concatenated axes in one tensor: pieces are ordered with the left-most '+' most significant."""
    common = ctx.perm(ctx.subset(pool, 0.4))
    m1 = ctx.draw(st.sampled_from([2, 2, 3]))
    m2 = 2
    same_len = ctx.b(0.6)
    l1 = ctx.draw(st.sampled_from([1, 2, 2, 3]))
    l2 = ctx.draw(st.sampled_from([1, 2, 2, 3]))
    ch1 = [ctx.new_axis(l1 if same_len else None) for _ in range(m1)]
    ch2 = [ctx.new_axis(l2 if same_len else None) for _ in range(m2)]
    for a in ch1 + ch2:
        ctx.protected.discard(a[1])

    def grouped():
        units = list(common)
        p1 = ctx.draw(st.integers(0, len(units)))
        p2 = ctx.draw(st.integers(p1, len(units)))
        return wrap(ctx, units[:p1], extras=False) + [["cat", list(ch1)]] + wrap(ctx, units[p1:p2], extras=False) + [["cat", list(ch2)]] + wrap(ctx, units[p2:], extras=False)

    def separate():
        exprs = []
        for a in ch1:
            for b in ch2:
                units = ctx.perm(list(common) + [("leaf", a, False), ("leaf", b, False)])
                exprs.append(wrap(ctx, units, extras=False))
        return exprs

    mode = ctx.draw(st.sampled_from(["gg", "gs", "sg"]))
    if mode[0] == "g":
        ins.append(grouped())
    else:
        ins.extend(separate())
    if mode[1] == "g":
        outs.append(grouped())
    else:
        outs.extend(separate())


def gen_vmapop(ctx, op):
    """A user function adapted with vmap: 1-3 inputs and 1-2 outputs, each with vectorised units and 0-2 bracketed units;
    bracketed axes may be shared between tensors, output brackets may hold new axes (sized by keyword) or numbers."""
    pool = _vector_units(ctx, 3, allow_fam=True)
    n_in = ctx.draw(st.sampled_from([1, 2, 2, 3]))
    shared = []

    def bracket_units(nb, output):
        brs = []
        for _ in range(nb):
            r = ctx.draw(st.integers(0, 9))
            if shared and r <= 3:
                u = ctx.pick(shared)
            elif r == 4:
                u = ("leaf", ctx.new_num(ctx.draw(st.sampled_from(LENS))), True)
                if ctx.b(0.6):
                    # two numeric axes side by side: they occur nowhere else, so anything that fuses "[4 4]" into one axis
                    # changes the signature of the adapted function
                    brs.append(u)
                    u = ("leaf", ctx.new_num(ctx.draw(st.sampled_from(LENS))), True)
            elif r == 5 and not output:
                u = ("fam", ctx.new_family(k=ctx.draw(st.sampled_from([1, 2]))), True, "plain")
                shared.append(u)
            else:
                u = ("leaf", ctx.new_axis(), True)
                shared.append(u)
            if u not in brs:
                brs.append(u)
        return brs

    ins_units = []
    for _ in range(n_in):
        us = ctx.subset(pool, 0.65)
        ins_units.append(ctx.perm(us + bracket_units(ctx.draw(st.sampled_from([0, 1, 1, 2])), False)))
    union = _dedupe([u for us in ins_units for u in us if not _is_br(u)])
    n_out = ctx.draw(st.sampled_from([1, 1, 2]))
    outs_units = []
    for _ in range(n_out):
        ov = _out_units(ctx, union)
        outs_units.append(ctx.perm(ov + bracket_units(ctx.draw(st.sampled_from([0, 1, 1, 2])), True)))
    return [wrap(ctx, us) for us in ins_units], [wrap(ctx, us, extras=False) for us in outs_units], {}


FAMILY_GEN = {
    "vmapop": gen_vmapop,
    "id": gen_id,
    "elementwise": gen_elementwise,
    "reduce": gen_reduce,
    "dot": gen_dot,
    "get_at": gen_get_at,
    "update": gen_update,
    "preserve": gen_preserve,
    "argfind": gen_argfind,
}


FAMILY_OPS = {
    "id": ["id"],
    "elementwise": ELEMENTWISE_BIN + ELEMENTWISE_NARY + ["where"],
    "reduce": REDUCE,
    "dot": ["dot"],
    "get_at": ["get_at"],
    "update": UPDATE,
    "preserve": PRESERVE,
    "argfind": ARGFIND,
}
FAMILY_WEIGHTS = ["id"] * 3 + ["elementwise"] * 3 + ["reduce"] * 3 + ["dot"] * 3 + ["get_at"] * 2 + ["update"] * 2 + ["preserve"] * 2 + ["argfind"] * 1

MAX_ELEMS = 600


def _total(case_env, exprs):
    t = 1
    for e in exprs:
        n = 1
        for d in X.shape_of(X.expand(e), case_env):
            n *= d
        t = max(t, n)
    return t


def _loop_size(env, ins, outs):
    keys = {}
    for e in ins + outs:
        for leaf, b in X.walk_leaves(X.expand(e)):
            keys[X.leaf_key(leaf)] = env[leaf[1]] if leaf[0] == "ax" else leaf[1]
    n = 1
    for v in keys.values():
        n *= v
    return n


def strip_brackets_removed(items):
    """Default output of a reduction: the input with every bracket (and its content) removed."""
    out = []
    for it in items:
        t = it[0]
        if t == "br":
            continue
        if t == "flat":
            out.append(["flat", strip_brackets_removed(it[1])])
        elif t == "ell":
            tpl = strip_brackets_removed(it[1])
            if not tpl:
                continue
            out.append(["ell", tpl, it[2], strip_brackets_removed(it[3]), it[4] if len(it) > 4 else False])
        else:
            out.append(it)
    return out


def default_output(ctx, op, ins):
    """The documented implicit output for `ins` (None if the operation has none / it is ambiguous)."""
    fam = family_of(op)
    import copy as _copy

    if fam in ("preserve",) or (fam in ("id", "elementwise") and len(ins) == 1):
        return [_copy.deepcopy(ins[0])]
    if fam == "id":
        return None
    if fam == "update":
        return [_copy.deepcopy(ins[0])]
    if fam == "reduce":
        return [strip_brackets_removed(ins[0])]
    if fam == "elementwise":
        sets = []
        for e in ins:
            # names as written (ellipsis templates count even with zero repetitions), numeric 1s excluded
            sets.append({(it[1] if it[0] == "ax" else it[2]) for it in X_iter(e) if it[0] == "ax" or (it[0] == "num" and it[1] != 1)})
        parents = [i for i, s in enumerate(sets) if all(t <= s for j, t in enumerate(sets) if j != i)]
        # einx de-duplicates candidate expressions by equality, so identical expressions count once
        uniq = []
        for i in parents:
            if not any(_norm_flat(ins[i]) == _norm_flat(ins[j]) for j in uniq):
                uniq.append(i)
        if len(uniq) != 1:
            return None
        return [_copy.deepcopy(ins[uniq[0]])]
    if fam == "argfind":
        brs = [it for it in X_iter(ins[0]) if it[0] == "br"]
        if len(brs) != 1:
            return None
        K = sum(1 for l, b in X.walk_leaves(X.expand(ins[0])) if b)
        target = brs[0]

        def repl(items):
            out = []
            for it in items:
                if it is target:
                    out.append(["br", [ctx.new_num(K)]])
                elif it[0] in ("flat", "cat"):
                    out.append([it[0], repl(it[1])])
                elif it[0] == "ell":
                    # a bracket inside an ellipsis template: not a single bracket usage in general
                    out.append(it)
                else:
                    out.append(it)
            return out

        if any(it[0] == "ell" and has_br(it[1]) for it in X_iter(ins[0])):
            return None
        return [repl(ins[0])]
    return None


def _norm_flat(items):
    """einx collapses directly nested parentheses: ((x)) is the same expression as (x)."""
    out = []
    for it in items:
        t = it[0]
        if t == "flat":
            inner = _norm_flat(it[1])
            while len(inner) == 1 and inner[0][0] == "flat":
                inner = inner[0][1]
            out.append(["flat", inner])
        elif t in ("cat", "br"):
            out.append([t, _norm_flat(it[1])])
        elif t == "ell":
            out.append(["ell", _norm_flat(it[1]), it[2]])
        else:
            out.append(it)
    return out


def has_br(items):
    return any(it[0] == "br" for it in X_iter(items))


def X_iter(items):
    for it in items:
        yield it
        if it[0] in ("flat", "cat", "br"):
            yield from X_iter(it[1])
        elif it[0] == "ell":
            yield from X_iter(it[1])


@st.composite
def call_case(draw, ops=None, backends=None, quick=True, simple=False, min_inputs=0, factories=False, implicit=False, flags=None):
    ctx = Ctx(draw, quick)
    ctx.simple = simple
    ctx.min_inputs = min_inputs
    ctx.flags = flags or {}
    if ops is None:
        # stratify by family first so that structurally rich families are not drowned by the 18 scalar ops
        fam = draw(st.sampled_from(FAMILY_WEIGHTS))
        op = draw(st.sampled_from(FAMILY_OPS[fam]))
    else:
        op = draw(st.sampled_from(ops))
        fam = family_of(op)
    ins, outs, meta = FAMILY_GEN[fam](ctx, op)
    env = ctx.env
    implicit_ok = None
    if implicit:
        d = default_output(ctx, op, ins)
        implicit_ok = d is not None
        if d is not None:
            outs = d
    # keep the reference evaluation cheap: shrink lengths until the loop nest is small
    guard = 0
    while _loop_size(env, ins, outs) > MAX_ELEMS and guard < 50:
        guard += 1
        big = [k for k, v in env.items() if v > 2 and not k.startswith("#") and k not in ctx.protected]
        if not big:
            break
        env[big[guard % len(big)]] -= 1
    opts = {k: v for k, v in meta.items() if k in ("shift", "keepdims")}
    fmask = None
    if factories:
        fmask = [draw(st.integers(0, 3)) == 0 for _ in ins]
        if not any(fmask):
            fmask[draw(st.integers(0, len(ins) - 1))] = True
    extra_eqs = _structural_equations(fam, ins, outs, env)
    sizes, smeta = compute_sizes(ctx, ins, outs, known_mask=[not f for f in fmask] if fmask else None, extra_eqs=extra_eqs)
    backend = draw(st.sampled_from(backends or BACKENDS))
    if meta.get("prefer_backend") is not None and meta["prefer_backend"] in (backends or BACKENDS) and draw(st.integers(0, 9)) < 6:
        backend = meta.get("prefer_backend")
    if fmask and all(fmask) and backend is None:
        backend = "numpy"  # callables alone do not select a backend
    kinds = data_kinds_for(op, len(ins))
    data = []
    for i, e in enumerate(ins):
        kopts = kinds[i] if i < len(kinds) else kinds[-1]
        data.append({"kind": draw(st.sampled_from(kopts)), "seed": draw(st.integers(0, 2**16))})
    if fam in ("get_at", "update"):
        tgt_bl = [env[l[1]] if l[0] == "ax" else l[1] for l, b in X.walk_leaves(X.expand(ins[0])) if b]
        ncoord = len(ins) - 1 if fam == "get_at" else len(ins) - 2
        ci = 0
        for j in range(ncoord):
            e = ins[1 + j]
            bl = [env[l[1]] if l[0] == "ax" else l[1] for l, b in X.walk_leaves(X.expand(e)) if b]
            m = bl[0] if bl else 1
            data[1 + j] = {"kind": "coord", "seed": draw(st.integers(0, 2**16)), "hi": tgt_bl[ci : ci + m], "dup": draw(st.sampled_from(["any", "any", "same"]))}
            ci += m
        if fam == "update":
            data[0]["kind"] = draw(st.sampled_from(["perm", "smallint"]))
            data[-1]["kind"] = draw(st.sampled_from(["perm", "smallint"]))
        else:
            data[0]["kind"] = draw(st.sampled_from(["perm", "float"]))
    case = {
        "op": op,
        "ins": ins,
        "outs": outs,
        "env": dict(env),
        "desc": X.p_desc(ins, outs),
        "sizes": sizes,
        "opts": opts,
        "backend": backend,
        "data": data,
        "meta": smeta,
    }
    if fmask:
        case["fmask"] = fmask
        case["protected"] = sorted(ctx.protected)
    if implicit:
        case["implicit_ok"] = implicit_ok
    case["meta"]["det_fams"] = smeta.get("det_fams", [])
    return case


NSTRATA = 16


@st.composite
def stratified_case(draw, k, share=50, **kw):
    """call_case, but `share` percent of the cases are restricted to the 2-3 operations assigned to stratum k (worker index):
    every operation receives a guaranteed part of each run whatever the random draws do."""
    if kw.get("ops") is None and draw(st.integers(0, 99)) < share:
        ops = [op for i, op in enumerate(ALL_OPS) if i % NSTRATA == k % NSTRATA]
        return draw(call_case(**{**kw, "ops": ops}))
    return draw(call_case(**kw))


def _structural_equations(fam, ins, outs, env):
    """Equations einx adds itself: coordinate counts (get_at / *_at) and the argmax/argmin output axis."""
    eqs = []

    def br_leaves(e):
        return [l for l, b in X.walk_leaves(X.expand(e)) if b]

    if fam in ("get_at", "update"):
        K = len(br_leaves(ins[0]))
        coords = ins[1:] if fam == "get_at" else ins[1:-1]
        children = []
        for e in coords:
            bl = br_leaves(e)
            children.append(bl[0] if bl else ["num", 1, "#c"])
        if children:
            eqs.append((["cat", children] if len(children) > 1 else children[0], K))
    elif fam == "argfind":
        K = len(br_leaves(ins[0]))
        bl = br_leaves(outs[0])
        if bl:
            eqs.append((bl[0], K))
    return eqs


def build_arrays(case):
    env = case["env"]
    arrays = []
    for e, d in zip(case["ins"], case["data"]):
        shape = X.shape_of(X.expand(e), env)
        if d["kind"] == "coord":
            arrays.append(make_coords(e, env, shape, d))
        else:
            arrays.append(make_array(d["kind"], shape, d["seed"]))
    return arrays


def make_coords(e, env, shape, d):
    """Coordinate tensor: along its bracketed axis position i, values in [0, hi[i])."""
    rng = np.random.default_rng(d["seed"])
    ex = X.expand(e)
    tops = []
    for it in ex:
        if it[0] == "br":
            tops.extend([(c, True) for c in it[1]])
        else:
            tops.append((it, _contains_br(it)))
    # find which top-level dimension holds the bracket and whether it is a pure bracket axis
    hi = d["hi"]
    a = np.zeros(shape, dtype=np.int64)
    # generic: fill via the leaf layout -- enumerate positions through unpack-like arithmetic
    from .loopsem import _index_arrays, _unbracketed_keys

    piece = ex
    V = _unbracketed_keys(piece)
    idxs, nb, blens, _ = _index_arrays(piece, env, V)
    lens = [env[k] if not k.startswith("#") else env[k] for k in V]
    full_shape = tuple(lens) + tuple(blens)
    if nb == 0:
        vals = rng.integers(0, hi[0], size=full_shape)
    else:
        vals = np.stack([rng.integers(0, h, size=tuple(lens)) for h in hi], axis=-1)
    if d.get("dup") == "same" and vals.size:
        first = vals.reshape((-1,) + vals.shape[len(lens) :])[0]
        vals = np.broadcast_to(first, vals.shape).copy()
    if a.ndim == 0:
        a[()] = vals.reshape(())
    else:
        full = tuple(np.broadcast_to(i, full_shape) for i in idxs)
        a[full] = vals
    return a


def _contains_br(it):
    if it[0] == "br":
        return True
    if it[0] in ("flat", "cat"):
        return any(_contains_br(c) for c in it[1])
    return False


@st.composite
def pure_id_case(draw, with_third=False):
    """A pure rearrangement for einx.id (bijective; every size passed by keyword is available via
    relations.all_named_sizes).  with_third: additionally 'outs2', a third expression list."""
    ctx = Ctx(draw)
    third = [] if with_third else None
    ins, outs, _ = gen_id(ctx, "id", pure=True, concat=not with_third, third=third)
    env = ctx.env
    guard = 0
    while _loop_size(env, ins, outs) > MAX_ELEMS and guard < 50:
        guard += 1
        big = [k for k, v in env.items() if v > 2 and not k.startswith("#") and k not in ctx.protected]
        if not big:
            break
        env[big[guard % len(big)]] -= 1
    sizes, smeta = compute_sizes(ctx, ins, outs)
    data = [{"kind": draw(st.sampled_from(["perm", "float"])), "seed": draw(st.integers(0, 2**16))} for _ in ins]
    case = {"op": "id", "ins": ins, "outs": outs, "env": dict(env), "desc": X.p_desc(ins, outs), "sizes": sizes, "opts": {}, "backend": draw(st.sampled_from(BACKENDS)), "data": data, "meta": smeta}
    if with_third:
        case["outs2"] = third
    return case

"""S1 (part): abstract expression model, printer, shapes, unit propagation.

An expression is a list of items (JSON-able lists):

    ["ax", name]                 named axis
    ["num", value, uid]          literal axis "3" -- a fresh axis, identified by uid (e.g. "#4")
    ["flat", [items]]            "( ... )", row-major composition; [] allowed ("()" has length 1)
    ["cat", [items]]             "(i + j + ...)", each child a single ax/num/flat item
    ["br", [items]]              "[ ... ]" marks the contained axes
    ["ell", tpl_items, k, [expanded items], anonymous]
                                 ellipsis: printed as "<tpl>...", meaning = the expanded items

Axis lengths live in an environment `env: name|uid -> int`.  Names of expanded ellipsis axes
are "<base>.<i>" and are never printed.
"""

import itertools

# ------------------------------------------------------------------ printing


def p_item(it):
    t = it[0]
    if t == "ax":
        return it[1]
    if t == "num":
        return str(it[1])
    if t == "flat":
        return "(" + p_items(it[1]) + ")"
    if t == "cat":
        return "(" + " + ".join(p_item(c) for c in it[1]) + ")"
    if t == "br":
        return "[" + p_items(it[1]) + "]"
    if t == "ell":
        if len(it) > 4 and it[4]:
            return "..."
        tpl = it[1]
        assert len(tpl) == 1, "ellipsis template must be a single item"
        return p_item(tpl[0]) + "..."
    raise ValueError(t)


def p_items(items):
    return " ".join(p_item(i) for i in items)


def p_desc(ins, outs=None):
    s = ", ".join(p_items(e) for e in ins)
    if outs is not None:
        s += " -> " + ", ".join(p_items(e) for e in outs)
    return s


# ------------------------------------------------------------------ structure


def expand(items):
    """Replace ellipsis nodes by their expansion (recursively)."""
    out = []
    for it in items:
        t = it[0]
        if t == "ell":
            out.extend(expand(it[3]))
        elif t in ("flat", "cat", "br"):
            out.append([t, expand(it[1])])
        else:
            out.append(it)
    return out


def walk_leaves(items, in_br=False):
    """Yield (leaf item, bracketed) in order of appearance (expanded form; all cat children)."""
    for it in items:
        t = it[0]
        if t in ("ax", "num"):
            yield it, in_br
        elif t == "br":
            yield from walk_leaves(it[1], True)
        elif t in ("flat", "cat"):
            yield from walk_leaves(it[1], in_br)
        elif t == "catsel":
            yield from walk_leaves([it[1]], in_br)
        elif t == "ell":
            yield from walk_leaves(it[3], in_br)
        else:
            raise ValueError(t)


def leaf_key(leaf):
    return leaf[1] if leaf[0] == "ax" else leaf[2]


def has_node(items, kind):
    for it in items:
        if it[0] == kind:
            return True
        if it[0] in ("flat", "cat", "br"):
            if has_node(it[1], kind):
                return True
        if it[0] == "ell":
            if has_node(it[1], kind) or has_node(it[3], kind):
                return True
    return False


def item_len(it, env):
    t = it[0]
    if t == "ax":
        return env[it[1]]
    if t == "num":
        return it[1]
    if t == "flat":
        n = 1
        for d in dims(it[1], env):
            n *= d
        return n
    if t == "cat":
        return sum(item_len(c, env) for c in it[1])
    if t == "catsel":
        return it[3]
    raise ValueError(t)


def dims(items, env):
    """Shape denoted by an item list."""
    out = []
    for it in items:
        t = it[0]
        if t == "br":
            out.extend(dims(it[1], env))
        elif t == "ell":
            out.extend(dims(it[3], env))
        else:
            out.append(item_len(it, env))
    return out


def shape_of(expr, env):
    return tuple(dims(expr, env))


# ------------------------------------------------------------------ concat alternatives


def _find_first_cat(items, path=()):
    for i, it in enumerate(items):
        t = it[0]
        if t == "cat":
            return path + (i,)
        if t in ("flat", "br"):
            r = _find_first_cat(it[1], path + (i, 1))
            if r is not None:
                return r
        elif t == "catsel":
            r = _find_first_cat([it[1]], path + (i, "sel"))
            if r is not None:
                return r
        elif t == "ell":
            raise ValueError("expand() first")
    return None


def _get(items, path):
    cur = items
    for p in path:
        if p == "sel":
            cur = [cur[1]]
        else:
            cur = cur[p]
    return cur


def _replace(items, path, new):
    """Functional replacement of the node at `path`."""
    if not path:
        return new
    p = path[0]
    if p == "sel":
        # items is a catsel node; its child list is [items[1]]
        child = _replace([items[1]], path[1:], new)
        return ["catsel", child[0], items[2], items[3]]
    out = list(items)
    out[p] = _replace(items[p], path[1:], new)
    return out


def pieces(items, env):
    """All concat-free pieces of an (expanded) expression in einx's decomposition order (depth
    first, the left-most '+' most significant).  A chosen '+' becomes
    ["catsel", child, offset, total_length]."""
    loc = _find_first_cat(items)
    if loc is None:
        yield items
        return
    cat = _get(items, loc)
    lens = [item_len(c, env) for c in cat[1]]
    off = 0
    for i, c in enumerate(cat[1]):
        yield from pieces(_replace(items, loc, ["catsel", c, off, sum(lens)]), env)
        off += lens[i]


# ------------------------------------------------------------------ unit propagation (S3c)


class Inconsistent(Exception):
    pass


def propagate(equations, env_known):
    """equations: list of (item, value) with value an int.  Solve by substituting known values one
    flattened/concatenated axis at a time.  Returns dict name->value of everything determined.
    Raises Inconsistent if a contradiction is met."""
    known = dict(env_known)
    pending = list(equations)
    progress = True
    while progress:
        progress = False
        nxt = []
        for it, val in pending:
            r = _solve_node(it, val, known)
            if r == "done":
                progress = True
            elif r == "defer":
                nxt.append((it, val))
            else:  # list of new equations
                progress = True
                nxt.extend(r)
        pending = nxt
    return known, pending


def _value(it, known):
    t = it[0]
    if t == "ax":
        return known.get(it[1])
    if t == "num":
        return it[1]
    if t == "flat":
        n = 1
        for c in _flat_children(it[1]):
            v = _value(c, known)
            if v is None:
                return None
            n *= v
        return n
    if t == "cat":
        n = 0
        for c in it[1]:
            v = _value(c, known)
            if v is None:
                return None
            n += v
        return n
    raise ValueError(t)


def _flat_children(items):
    for it in items:
        if it[0] == "br":
            yield from _flat_children(it[1])
        elif it[0] == "ell":
            yield from _flat_children(it[3])
        else:
            yield it


def _solve_node(it, val, known):
    t = it[0]
    if t == "ax":
        if it[1] in known:
            if known[it[1]] != val:
                raise Inconsistent(f"{it[1]}: {known[it[1]]} != {val}")
        else:
            if val < 1:
                raise Inconsistent(f"{it[1]} = {val}")
            known[it[1]] = val
        return "done"
    if t == "num":
        if it[1] != val:
            raise Inconsistent(f"{it[1]} != {val}")
        return "done"
    if t == "flat":
        ch = list(_flat_children(it[1]))
        vals = [_value(c, known) for c in ch]
        unk = [i for i, v in enumerate(vals) if v is None]
        prod = 1
        for v in vals:
            if v is not None:
                prod *= v
        if len(unk) == 0:
            if prod != val:
                raise Inconsistent(f"product {prod} != {val}")
            return "done"
        if len(unk) == 1:
            if prod == 0 or val % prod != 0:
                raise Inconsistent(f"{val} not divisible by {prod}")
            return [(ch[unk[0]], val // prod)]
        return "defer"
    if t == "cat":
        ch = it[1]
        vals = [_value(c, known) for c in ch]
        unk = [i for i, v in enumerate(vals) if v is None]
        s = sum(v for v in vals if v is not None)
        if len(unk) == 0:
            if s != val:
                raise Inconsistent(f"sum {s} != {val}")
            return "done"
        if len(unk) == 1:
            if val - s < 1:
                raise Inconsistent(f"{val} - {s} < 1")
            return [(ch[unk[0]], val - s)]
        return "defer"
    raise ValueError(t)


def equations_for(expr, shape):
    """Equations item=value for an (expanded) expression against a known shape."""
    eqs = []
    tops = list(_flat_children(expr))
    assert len(tops) == len(shape), (expr, shape)
    for it, d in zip(tops, shape):
        eqs.append((it, int(d)))
    return eqs


def all_axis_names(exprs):
    names = []
    for e in exprs:
        for leaf, _ in walk_leaves(e):
            if leaf[0] == "ax" and leaf[1] not in names:
                names.append(leaf[1])
    return names


def el_items(items, in_br=False):
    """The elementary signature of an (expanded) expression: what is left when everything outside brackets is dropped
    (einx_from_namedtensor._to_el_expr): bracket contents stay, a flattened axis keeps its bracketed part."""
    out = []
    for it in items:
        t = it[0]
        if t in ("ax", "num"):
            if in_br:
                out.append(it)
        elif t == "br":
            out.extend(el_items(it[1], True))
        elif t == "flat":
            inner = el_items(it[1], in_br)
            if in_br or inner:
                out.append(["flat", inner])
        elif t == "ell":
            out.extend(el_items(it[3], in_br))
        elif t == "cat":
            if in_br:
                out.append(it)
    return out


def el_shape(expr, env):
    """Shape of the sub-tensor an elementary (vmapped) function receives / returns for this expression."""
    return shape_of(el_items(expand(expr)), env)


def br_shape(expr, env):
    """One dimension per bracketed leaf axis, in order of appearance (einx hands user functions decomposed sub-tensors:
    axis compositions are undone before the elementary operation is called)."""
    return tuple((env[l[1]] if l[0] == "ax" else l[1]) for l, b in walk_leaves(expand(expr)) if b)

"""S2: reference loop semantics of the notation, written from docs/source/gettingstarted/*.rst.

Does not import einx.  Index arithmetic follows the documentation literally: one loop variable per
un-bracketed axis name, row-major formula for "( ... )", block offsets for "+", ":" for bracketed
axes (every bracketed axis occurrence is its own dimension of the elementary operation, in order of
appearance), index 0 for squeezed length-1 axes, repetition along output-only axes.
"""

import itertools
import math

import numpy as np

from . import expr as X


class Unsupported(Exception):
    """The reference semantics do not cover this case (generator bug) -> harness error."""


# ------------------------------------------------------------------ index arithmetic


def _leaf_layout(piece):
    """List of (leaf, bracketed) in order for a concat-free piece."""
    return list(X.walk_leaves(piece))


def _index_arrays(piece, env, V):
    """For a concat-free, expanded piece: (list of index arrays per top-level dimension,
    n_bracket_instances, bracket_instance_lengths, bracket_instance_names).
    Index arrays broadcast over axes [V..., bracket instances...]."""
    leaves = _leaf_layout(piece)
    nb = sum(1 for _, b in leaves if b)
    n = len(V) + nb
    counter = {"b": 0}
    blens, bnames = [], []

    def leaf_arr(leaf, bracketed):
        length = env[leaf[1]] if leaf[0] == "ax" else leaf[1]
        if bracketed:
            axis = len(V) + counter["b"]
            counter["b"] += 1
            blens.append(length)
            bnames.append(X.leaf_key(leaf))
        else:
            axis = V.index(X.leaf_key(leaf))
        shape = [1] * n
        shape[axis] = length
        return np.arange(length, dtype=np.int64).reshape(shape), length

    def pos(it, in_br):
        t = it[0]
        if t in ("ax", "num"):
            return leaf_arr(it, in_br)
        if t == "flat":
            idx = np.zeros([1] * n, dtype=np.int64)
            total = 1
            for c, cb in _children(it[1], in_br):
                ci, cl = pos(c, cb)
                idx = idx * cl + ci
                total *= cl
            return idx, total
        if t == "catsel":
            ci, _cl = pos(it[1], in_br)
            return ci + it[2], it[3]
        raise Unsupported(f"node {t} in piece")

    def _children(items, in_br):
        for it in items:
            if it[0] == "br":
                yield from _children(it[1], True)
            else:
                yield it, in_br

    idxs = []
    for it, b in _children(piece, False):
        i, _l = pos(it, b)
        idxs.append(i)
    return idxs, nb, blens, bnames


def unpack(T, piece, env, V):
    """U[v..., e...] = T[position]; axes of V missing from the piece have extent 1."""
    T = np.asarray(T)
    idxs, nb, blens, bnames = _index_arrays(piece, env, V)
    n = len(V) + nb
    if len(idxs) != T.ndim:
        raise Unsupported(f"rank mismatch {T.shape} vs {X.p_items(piece)}")
    if T.ndim == 0:
        U = T.reshape([1] * n)
    else:
        b = np.broadcast_arrays(*idxs)
        U = T[tuple(b)]
    return U, blens, bnames


def pack(out, R, piece, env, V):
    """out[position] = R[v..., e...] for all loop indices."""
    idxs, nb, blens, _ = _index_arrays(piece, env, V)
    if out.ndim == 0:
        out[()] = np.asarray(R).reshape(-1)[0]
        return
    full = tuple(np.broadcast_to(i, R.shape) for i in idxs)
    out[full] = R


# ------------------------------------------------------------------ elementary operations


def _logsumexp(x):
    x = np.asarray(x, dtype=np.float64).reshape(-1)
    m = np.max(x)
    return m + math.log(float(np.sum(np.exp(x - m))))


REDUCE = {
    "sum": lambda s: np.sum(s),
    "mean": lambda s: np.mean(s),
    "var": lambda s: np.var(s),
    "std": lambda s: np.std(s),
    "prod": lambda s: np.prod(s),
    "count_nonzero": lambda s: np.count_nonzero(s),
    "any": lambda s: bool(np.any(s)),
    "all": lambda s: bool(np.all(s)),
    "max": lambda s: np.max(s),
    "min": lambda s: np.min(s),
    "logsumexp": _logsumexp,
}


def _fold(f):
    def g(*xs):
        r = xs[0]
        for y in xs[1:]:
            r = f(r, y)
        return r

    return g


def _logaddexp2(a, b):
    m = max(float(a), float(b))
    return m + math.log(math.exp(float(a) - m) + math.exp(float(b) - m))


ELEMENTWISE = {
    "add": _fold(lambda a, b: a + b),
    "subtract": lambda a, b: a - b,
    "multiply": _fold(lambda a, b: a * b),
    "true_divide": lambda a, b: np.true_divide(a, b),
    "floor_divide": lambda a, b: np.floor_divide(a, b),
    "divide": lambda a, b: np.divide(a, b),
    "logical_and": _fold(lambda a, b: bool(a) and bool(b)),
    "logical_or": _fold(lambda a, b: bool(a) or bool(b)),
    "where": lambda m, a, b: a if bool(m) else b,
    "maximum": _fold(lambda a, b: a if a >= b else b),
    "minimum": _fold(lambda a, b: a if a <= b else b),
    "less": lambda a, b: bool(a < b),
    "less_equal": lambda a, b: bool(a <= b),
    "greater": lambda a, b: bool(a > b),
    "greater_equal": lambda a, b: bool(a >= b),
    "equal": lambda a, b: bool(a == b),
    "not_equal": lambda a, b: bool(a != b),
    "logaddexp": _fold(_logaddexp2),
}
NARY = {"add", "multiply", "logical_and", "logical_or", "maximum", "minimum", "logaddexp"}
UPDATE = {"set_at", "add_at", "subtract_at"}
PRESERVE = {"flip", "roll", "sort", "argsort", "softmax", "log_softmax"}
ARGFIND = {"argmax", "argmin"}


def _softmax(s):
    s = np.asarray(s, dtype=np.float64)
    e = np.exp(s - np.max(s))
    return e / np.sum(e)


def _log_softmax(s):
    s = np.asarray(s, dtype=np.float64)
    return s - _logsumexp(s)


def _preserve(op, s, opts):
    k = s.ndim
    if op == "flip":
        return s[tuple(slice(None, None, -1) for _ in range(k))]
    if op == "roll":
        shift = opts["shift"]
        if isinstance(shift, (list, tuple)):
            shifts = list(shift)
            if len(shifts) == 1:
                shifts = shifts * k
        else:
            shifts = [shift] * k
        out = np.empty_like(s)
        for idx in np.ndindex(*s.shape):
            dst = tuple((i + sh) % n for i, sh, n in zip(idx, shifts, s.shape))
            out[dst] = s[idx]
        return out
    if op == "sort":
        return np.array(sorted(s.tolist()), dtype=s.dtype)
    if op == "argsort":
        lst = s.tolist()
        return np.array(sorted(range(len(lst)), key=lambda i: lst[i]), dtype=np.int64)
    if op == "softmax":
        return _softmax(s)
    if op == "log_softmax":
        return _log_softmax(s)
    raise Unsupported(op)


def _argfind(op, s, want_vector):
    flat = s.reshape(-1).tolist()
    best = 0
    for i, v in enumerate(flat):
        if (op == "argmax" and v > flat[best]) or (op == "argmin" and v < flat[best]):
            best = i
    coords = []
    rem = best
    for n in reversed(s.shape):
        coords.append(rem % n)
        rem //= n
    coords = coords[::-1]
    if want_vector:
        return np.array(coords, dtype=np.int64)
    assert len(coords) == 1
    return np.int64(coords[0])


# ------------------------------------------------------------------ whole operations


def _single_piece(e, env):
    ps = list(X.pieces(X.expand(e), env))
    if len(ps) != 1:
        raise Unsupported("'+' outside id")
    return ps[0]


def _unbracketed_keys(piece):
    out = []
    for leaf, b in X.walk_leaves(piece):
        if not b:
            k = X.leaf_key(leaf)
            if k not in out:
                out.append(k)
    return out


def _vlens(V, env, pieces):
    lens = {}
    for p in pieces:
        for leaf, b in X.walk_leaves(p):
            if not b:
                lens[X.leaf_key(leaf)] = env[leaf[1]] if leaf[0] == "ax" else leaf[1]
    return [lens[v] for v in V]


def run_id(ins, outs, env, arrays):
    in_pieces = []
    for e, a in zip(ins, arrays):
        for p in X.pieces(X.expand(e), env):
            in_pieces.append((p, np.asarray(a)))
    out_pieces = []
    for j, e in enumerate(outs):
        for p in X.pieces(X.expand(e), env):
            out_pieces.append((p, j))
    if len(in_pieces) != len(out_pieces):
        raise Unsupported("piece count mismatch")
    dtype = np.result_type(*[np.asarray(a).dtype for a in arrays])
    results = [np.zeros(X.shape_of(X.expand(e), env), dtype=dtype) for e in outs]
    for (pi, a), (po, j) in zip(in_pieces, out_pieces):
        V = _unbracketed_keys(po)
        for k in _unbracketed_keys(pi):
            if k not in V:
                V.append(k)
        lens = _vlens(V, env, [po, pi])
        U, _, _ = unpack(a, pi, env, V)
        U = np.broadcast_to(U, lens)
        pack(results[j], U, po, env, V)
    return results


def run_op(op, ins, outs, env, arrays, opts=None):
    """Reference result(s) of einx.<op>(description, *arrays).  Returns a list of arrays
    (for set_at: a list with one object array of admissible-value sets, see run_update)."""
    opts = opts or {}
    if op == "id":
        return run_id(ins, outs, env, arrays)
    if op in UPDATE:
        return [run_update(op, ins, outs[0], env, arrays)]
    pin = [_single_piece(e, env) for e in ins]
    if len(outs) != 1:
        raise Unsupported("multiple outputs")
    pout = _single_piece(outs[0], env)
    V = _unbracketed_keys(pout)
    for p in pin:
        for k in _unbracketed_keys(p):
            if k not in V:
                V.append(k)
    lens = _vlens(V, env, [pout] + pin)
    Us, bl, bn = [], [], []
    for p, a in zip(pin, arrays):
        U, blens, bnames = unpack(a, p, env, V)
        U = np.broadcast_to(U, tuple(lens) + tuple(blens))
        Us.append(U)
        bl.append(blens)
        bn.append(bnames)
    _, nbo, oblens, obnames = _index_arrays(pout, env, V)

    f = _elementary(op, bl, bn, oblens, opts, env)
    res = []
    for v in np.ndindex(*lens):
        subs = [U[v] for U in Us]
        res.append(f(*subs))
    if len(res) == 0:
        raise Unsupported("zero-sized loop")
    R = np.array(res)
    R = R.reshape(tuple(lens) + tuple(oblens))
    out = np.zeros(X.shape_of(X.expand(outs[0]), env), dtype=R.dtype)
    pack(out, R, pout, env, V)
    return [out]


def run_custom(ins, outs, env, arrays, fn):
    """Loop semantics with an arbitrary elementary function and any number of outputs: for every assignment of the
    un-bracketed axes, fn(*bracketed sub-tensors) -> (tuple of) bracketed output sub-tensor(s)."""
    pin = [_single_piece(e, env) for e in ins]
    pouts = [_single_piece(e, env) for e in outs]
    V = []
    for p in pouts + pin:
        for k in _unbracketed_keys(p):
            if k not in V:
                V.append(k)
    lens = _vlens(V, env, pouts + pin)
    Us = []
    for p, a in zip(pin, arrays):
        U, blens, _ = unpack(a, p, env, V)
        Us.append(np.broadcast_to(U, tuple(lens) + tuple(blens)))
    oblens = [_index_arrays(po, env, V)[2] for po in pouts]
    res = [[] for _ in pouts]
    for v in np.ndindex(*lens):
        r = fn(*[U[v] for U in Us])
        if len(pouts) == 1 and not isinstance(r, tuple):
            r = (r,)
        for j, x in enumerate(r):
            res[j].append(np.asarray(x).reshape(tuple(oblens[j])))
    if len(res[0]) == 0:
        raise Unsupported("zero-sized loop")
    results = []
    for j, po in enumerate(pouts):
        R = np.array(res[j]).reshape(tuple(lens) + tuple(oblens[j]))
        out = np.zeros(X.shape_of(X.expand(outs[j]), env), dtype=R.dtype)
        pack(out, R, po, env, V)
        results.append(out)
    return results


def _elementary(op, bl, bn, oblens, opts, env):
    if op == "custom":
        return opts["_fn"]
    if op in REDUCE:
        g = REDUCE[op]
        return lambda s: g(s)
    if op in ELEMENTWISE:
        g = ELEMENTWISE[op]
        return lambda *xs: g(*[x[()] for x in xs])
    if op == "dot":
        names = []
        for b in bn:
            for nm in b:
                if nm not in names:
                    names.append(nm)
        nlen = {}
        for b, l in zip(bn, bl):
            for nm, ln in zip(b, l):
                nlen[nm] = ln

        def dot(*subs):
            total = 0
            for assign in itertools.product(*[range(nlen[nm]) for nm in names]):
                a = dict(zip(names, assign))
                term = 1
                for s, b in zip(subs, bn):
                    term = term * s[tuple(a[nm] for nm in b)]
                total = total + term
            return total

        return dot
    if op == "get_at":

        def get_at(val, *coords):
            c = []
            for s in coords:
                c.extend(np.asarray(s).reshape(-1).tolist())
            if len(c) != val.ndim:
                raise Unsupported("coordinate count")
            return val[tuple(int(i) for i in c)]

        return get_at
    if op in PRESERVE:
        return lambda s: _preserve(op, s, opts)
    if op in ARGFIND:
        want_vector = len(oblens) == 1
        return lambda s: _argfind(op, s, want_vector)
    raise Unsupported(op)


# ------------------------------------------------------------------ indexed updates (C14)


def run_update(op, ins, out, env, arrays):
    """Returns (result_target_shaped -> packed to `out`) as an object array of frozensets of
    admissible values (singletons unless several set_at updates compete for an element)."""
    ptgt = _single_piece(ins[0], env)
    pcoords = [_single_piece(e, env) for e in ins[1:-1]]
    pupd = _single_piece(ins[-1], env)
    pout = _single_piece(out, env)
    tgt = np.asarray(arrays[0])
    # loop variables: all un-bracketed axes of target, coordinates and updates
    W = []
    for p in [ptgt] + pcoords + [pupd]:
        for k in _unbracketed_keys(p):
            if k not in W:
                W.append(k)
    lens = _vlens(W, env, [ptgt] + pcoords + [pupd])
    Ut, tbl, _ = unpack(tgt, ptgt, env, W)
    Ut = np.broadcast_to(Ut, tuple(lens) + tuple(tbl))
    # position of every target element as flat index of the target array
    pos, _, _ = unpack(np.arange(tgt.size, dtype=np.int64).reshape(tgt.shape), ptgt, env, W)
    pos = np.broadcast_to(pos, tuple(lens) + tuple(tbl))
    Uc = []
    for p, a in zip(pcoords, arrays[1:-1]):
        U, cbl, _ = unpack(np.asarray(a), p, env, W)
        Uc.append(np.broadcast_to(U, tuple(lens) + tuple(cbl)))
    Uu, ubl, _ = unpack(np.asarray(arrays[-1]), pupd, env, W)
    if ubl:
        raise Unsupported("brackets in update expression")
    Uu = np.broadcast_to(Uu, tuple(lens))

    flat = tgt.reshape(-1)
    if op == "set_at":
        cands = {}
    acc = flat.astype(np.result_type(flat.dtype, np.asarray(arrays[-1]).dtype)).copy()
    for w in np.ndindex(*lens):
        c = []
        for U in Uc:
            c.extend(np.asarray(U[w]).reshape(-1).tolist())
        if len(c) != len(tbl):
            raise Unsupported("coordinate count")
        p = int(pos[w][tuple(int(i) for i in c)])
        u = Uu[w]
        if op == "set_at":
            cands.setdefault(p, set()).add(u.item() if hasattr(u, "item") else u)
        elif op == "add_at":
            acc[p] = acc[p] + u
        else:
            acc[p] = acc[p] - u
    res = np.empty(flat.shape, dtype=object)
    for i in range(flat.size):
        if op == "set_at" and i in cands:
            res[i] = frozenset(cands[i])
        else:
            res[i] = frozenset([acc[i].item()])
    res = res.reshape(tgt.shape)
    # rearrange target-shaped result to the output expression (id semantics)
    V = _unbracketed_keys(pout)
    for k in _unbracketed_keys(ptgt):
        if k not in V:
            V.append(k)
    vl = _vlens(V, env, [pout, ptgt])
    U, bl, _ = unpack(res, ptgt, env, V)
    U = np.broadcast_to(U, tuple(vl) + tuple(bl))
    outarr = np.empty(X.shape_of(X.expand(out), env), dtype=object)
    pack(outarr, U, pout, env, V)
    return outarr


# ------------------------------------------------------------------ comparison


def compare(expected, got, *, rtol=1e-9, atol=1e-11):
    """None if equal, else a short message.  dtype is not compared."""
    got = np.asarray(got)
    if expected.dtype == object:  # admissible sets
        if tuple(expected.shape) != tuple(got.shape):
            return f"shape {tuple(got.shape)} != expected {tuple(expected.shape)}"
        for idx in np.ndindex(*expected.shape):
            g = got[idx].item()
            adm = expected[idx]
            if not any(_scalar_eq(a, g, rtol, atol) for a in adm):
                return f"at {idx}: got {g!r}, admissible {sorted(adm, key=repr)!r}"
        return None
    if tuple(expected.shape) != tuple(got.shape):
        return f"shape {tuple(got.shape)} != expected {tuple(expected.shape)}"
    if expected.dtype.kind in "biu" and got.dtype.kind in "biu":
        if not np.array_equal(expected.astype(np.int64), got.astype(np.int64)):
            return _first_diff(expected, got)
        return None
    e = expected.astype(np.float64)
    g = got.astype(np.float64)
    if not np.allclose(e, g, rtol=rtol, atol=atol, equal_nan=True):
        return _first_diff(e, g)
    return None


def _scalar_eq(a, g, rtol, atol):
    if isinstance(a, float) or isinstance(g, float):
        return abs(float(a) - float(g)) <= atol + rtol * abs(float(a))
    return a == g


def _first_diff(e, g):
    for idx in np.ndindex(*e.shape):
        if not (e[idx] == g[idx]) and not (np.issubdtype(e.dtype, np.floating) and abs(e[idx] - g[idx]) <= 1e-11 + 1e-9 * abs(e[idx])):
            return f"at {idx}: got {g[idx]!r}, expected {e[idx]!r}"
    return "values differ"

"""Developer helper: run N examples of a property's strategy without shrinking and list buckets."""
import sys, collections, time, importlib
from hypothesis import given, settings, seed, HealthCheck, Phase
from . import common

def main():
    prop = sys.argv[1]; n = int(sys.argv[2]); sd = int(sys.argv[3]) if len(sys.argv) > 3 else 1
    mod = importlib.import_module(f"einxverif.props.{prop.lower()}")
    stats = common.Stats(); buckets = collections.OrderedDict(); cnt = collections.Counter()
    strat = mod.make_strategy("quick", 0)
    t0 = time.time()
    @seed(sd)
    @settings(max_examples=n, database=None, deadline=None, suppress_health_check=list(HealthCheck), phases=[Phase.generate])
    @given(strat)
    def t(case):
        stats.evaluations += 1
        for v in mod.evaluate(case, stats):
            cnt[v.bucket] += 1
            if v.bucket not in buckets or len(v.message) < len(buckets[v.bucket]):
                buckets[v.bucket] = v.message
                import os
                if os.environ.get("DEV_SHOW") and os.environ["DEV_SHOW"] in v.bucket:
                    open("/tmp/dev_case.json", "w").write(common.jdump({"case": case, "bucket": v.bucket}))
    t()
    for b, m in buckets.items():
        print(f"[{cnt[b]}] {b}\n     {m[:int(sys.argv[4]) if len(sys.argv)>4 else 400]}\n")
    print("evaluations", stats.evaluations, "nontrivial", len(stats.nontrivial), f"{time.time()-t0:.1f}s")
    hist = {k: v for k, v in sorted(stats.hist.items()) if not k.startswith("op:")}
    print(hist)
main()

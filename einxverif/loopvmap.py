"""S8: loop-vmap test double.

No vmap-capable framework (jax, torch, mlx) is installed in this sandbox, so the vmap adapter chain of einx
(adapter.decomposednamedtensor_from_vmap + adapter.elementary_from_classical + the nested-function graphs that the
tracer builds for vmapped functions) would never execute.  This module supplies

  * `vmap(func, in_axes, out_axes)`: a numpy implementation of the jax.vmap contract by an explicit Python loop, and
  * `create_backend()`: the Backend returned by einx's own `einx/_src/frontend/impl/jax.py: create_backend_vmap`, and
  * `adapt_with_vmap(op, signature)`: einx's own `einx.jax.adapt_with_vmap`,
    both executed while three names are swapped (run-time interposition, restored afterwards): `tracer.signature.jax`
    -> a traced namespace whose `.numpy` is the traced numpy and whose `.vmap` is the traced `vmap` below;
    `adapter.classical_from_jax.ops` -> `adapter.classical_from_numpy.ops`; `impl.jax._get_backend_kwargs` -> numpy's.

Only einx code sits between the user call and `vmap` below, so a wrong in_axes/out_axes, a wrong vmap order, a wrong
inner graph, a lost option or a mis-compiled nested function shows up as a wrong value against loop semantics.
"""

import contextlib

import numpy as np

from .common import HarnessError

MODULE = "einxverif.loopvmap"
NAME = "numpy.loopvmap"

calls = []  # (in_axes, out_axes, mapped_len) per executed vmapped call; cleared by callers


def vmap(func, in_axes=0, out_axes=0):
    def vmapped(*args):
        ia = in_axes if isinstance(in_axes, tuple) else (in_axes,) * len(args)
        if len(ia) != len(args):
            raise ValueError(f"vmap: {len(ia)} in_axes for {len(args)} arguments")
        args = [np.asarray(a) if ax is not None else a for a, ax in zip(args, ia)]
        ns = {a.shape[ax] for a, ax in zip(args, ia) if ax is not None}
        if len(ns) != 1:
            raise ValueError(f"vmap: inconsistent mapped sizes {sorted(ns)}")
        (n,) = ns
        calls.append((ia, out_axes, n))
        if n == 0:
            raise ValueError("loop vmap cannot map over an empty axis")
        outs = []
        for i in range(n):
            sl = [np.take(a, i, axis=ax) if ax is not None else a for a, ax in zip(args, ia)]
            outs.append(func(*sl))
        if isinstance(outs[0], tuple):
            k = len(outs[0])
            oa = out_axes if isinstance(out_axes, tuple) else (out_axes,) * k
            if len(oa) != k:
                raise ValueError("vmap: out_axes does not match the number of outputs")
            return tuple(_stack([o[j] for o in outs], oa[j]) for j in range(k))
        if isinstance(out_axes, tuple):
            if len(out_axes) != 1:
                raise ValueError("vmap: out_axes does not match the number of outputs")
            return _stack(outs, out_axes[0])
        return _stack(outs, out_axes)

    return vmapped


def _stack(xs, axis):
    xs = [np.asarray(x) for x in xs]
    if axis is None:
        return xs[0]
    return np.stack(xs, axis=axis)


class ShapedNonTensor:
    """Not a tensor of the backend, but it has the right .shape and converts to an array: must be rejected, not returned."""

    def __init__(self, a):
        self._a = a
        self.shape = a.shape
        self.ndim = a.ndim
        self.dtype = a.dtype

    def __array__(self, dtype=None, copy=None):
        return self._a if dtype is None else self._a.astype(dtype)


def make_elementary(name, rec, out_shapes, bad=None):
    """Elementary function for adapt_with_vmap: every output element depends on every input element and its position."""

    def num(v):
        return v if isinstance(v, (int, float, np.integer, np.floating)) and not isinstance(v, bool) and v == v and not np.isinf(v) else 1

    def compute(xs, scale):
        s = 0.0
        for i, x in enumerate(xs):
            v = np.asarray(x, dtype=np.float64).reshape(-1)
            s += (i + 1) * float(np.dot(v, np.arange(1, v.size + 1)))
        outs = []
        for j, shp in enumerate(out_shapes):
            n = int(np.prod(shp)) if len(shp) else 1
            o = (s * (j + 1) * num(scale) + 0.25 * np.arange(n)).reshape(shp)
            outs.append(o)
        if bad == "bad_type":
            outs[-1] = outs[-1].tolist()
        elif bad == "bad_type_shaped":
            outs[-1] = ShapedNonTensor(outs[-1])
        elif bad == "bad_rank":
            outs[-1] = outs[-1][..., None]
        elif bad == "bad_shape":
            o = outs[-1]
            outs[-1] = np.concatenate([o, o[:1]], axis=0) if o.ndim else np.zeros((2,))
        if bad == "bad_arity":
            return tuple(outs) + (outs[-1],)
        return outs[0] if len(outs) == 1 else tuple(outs)

    if name == "vm":
        def f(*xs, scale=1.0, tag=None):
            rec.calls.append({"args": [np.asarray(x) for x in xs], "axis": None, "opts": {"scale": scale, "tag": tag}})
            return compute(xs, scale)
    else:
        def f(*xs):
            rec.calls.append({"args": [np.asarray(x) for x in xs], "axis": None, "opts": {}})
            return compute(xs, 1)
    return f


class _FakeJaxSignature:
    def __init__(self):
        import einx._src.tracer as tracer

        lv = tracer.signature.python.import_(MODULE, as_="lv")
        self.numpy = tracer.signature.numpy()
        self.vmap = tracer.signature.classical.vmap(lv.vmap)


@contextlib.contextmanager
def _as_jax():
    """Run einx's jax front-end code against numpy + the loop vmap."""
    import einx._src.adapter as adapter
    import einx._src.tracer as tracer
    import einx._src.frontend.impl.jax as ijax
    import einx._src.frontend.impl.numpy as inumpy

    for obj, attr in ((tracer.signature, "jax"), (adapter.classical_from_jax, "ops"), (ijax, "_get_backend_kwargs"), (adapter, "vmap_from_jax")):
        if not hasattr(obj, attr):
            raise HarnessError(f"interposition point {obj.__name__}.{attr} is gone")
    saved = (tracer.signature.jax, adapter.classical_from_jax.ops, ijax._get_backend_kwargs)
    tracer.signature.jax = _FakeJaxSignature
    adapter.classical_from_jax.ops = lambda jax: adapter.classical_from_numpy.ops(jax.numpy)
    ijax._get_backend_kwargs = inumpy._get_backend_kwargs
    try:
        yield ijax
    finally:
        tracer.signature.jax, adapter.classical_from_jax.ops, ijax._get_backend_kwargs = saved


def create_backend():
    with _as_jax() as ijax:
        b = ijax.create_backend_vmap()
    if b.name != "jax.vmap":
        raise HarnessError(f"create_backend_vmap returned a backend named {b.name!r}")
    b.name = NAME
    return b


def adapt_with_vmap(op, signature=None):
    with _as_jax() as ijax:
        return ijax.adapt_with_vmap(op, signature=signature)


_registered = {}


def backend():
    """The double as a registered einx backend (registered once per process)."""
    if "b" not in _registered:
        from einx._src.frontend.backend import registry

        b = create_backend()
        registry.register(b)
        _registered["b"] = b
    return _registered["b"]


def ensure(case):
    """Register the double if the case (or backend name) refers to it."""
    b = case.get("backend") if isinstance(case, dict) else case
    if b == NAME:
        backend()

#!/bin/sh
# usage: tools_one.sh <mutant-dir-name> [seed...]  -- one seeded change against its own property's quick check, scratch worktree
HERE="$(cd "$(dirname "$0")" && pwd)"
n=$1; shift
p=${n%%_*}
wt=/tmp/mut/one_$$_$n
mkdir -p /tmp/mut
git -C /repo worktree add --detach "$wt" >/dev/null 2>&1 || exit 2
git -C "$wt" apply "$HERE/seeded/$n/patch.diff" || { git -C /repo worktree remove --force "$wt"; echo "$n NOAPPLY"; exit 2; }
for s in ${@:-1}; do
  res=$(EINX_REPO="$wt" VERIF_SEED=$s "$HERE"/check "$p" --tier quick 2>&1); rc=$?
  echo "$n seed=$s rc=$rc $(echo "$res" | grep -m1 '^violation' | cut -c1-200)"
done
git -C /repo worktree remove --force "$wt" >/dev/null 2>&1

#!/venv/bin/python
"""Regenerates MANIFEST.json from the table below (kept valid at all times)."""
import json, os

HERE = os.path.dirname(os.path.abspath(__file__))
TITLES = {}
for l in open(os.path.join(HERE, "properties.jsonl")):
    p = json.loads(l)
    TITLES[p["id"]] = p["title"]

# id -> (technique, level text, level note, design ref)
CLAIMED = {
    "C01": (
        "property-based differential testing against a loop-semantics reference interpreter (Hypothesis, constructive ACM generator)",
        "Generated-input search: thousands of structurally diverse calls per run over all 43 operations, 4 numpy backend selectors and einx's vmap back end run over a loop-vmap test double are compared "
        "value-by-value with an independent literal-loop interpreter of the notation; failures are bucketed by root cause, shrunk and saved as replay files. "
        "Exploration, not proof: absence of a violation covers the explored cases only.",
        "Trusted: einxverif/loopsem.py (reference semantics written from docs/source/gettingstarted), numpy elementary functions on sub-tensors, Hypothesis. "
        "Only numpy is importable here; the vmap adapter chain runs over numpy + a Python-loop vmap (einxverif/loopvmap.py), which says nothing about the real jax/torch vmap.",
        "DESIGN.md §4 C01, §3 S1/S2",
    ),
    "C14": (
        "property-based testing of set_at/add_at/subtract_at against an explicit per-index loop model, plus get_at read-back (Hypothesis)",
        "Generated-input search over target/coordinate/update expression structures, duplicate rates and backends; the oracle loops over every index "
        "combination of all un-bracketed axes (exact accumulation; admissible-set for competing set updates) and a metamorphic read-back through get_at. "
        "Exploration only.",
        "Trusted: einxverif/loopsem.py run_update (reference), numpy. numpy-family backends only; integer data so that accumulation is exact.",
        "DESIGN.md §4 C14",
    ),
    "C08": (
        "metamorphic property-based testing (renaming / permutation / regrouping / inversion / composition twins of generated calls, Hypothesis)",
        "Generated-input search over metamorphic relation instances: each generated call is re-run as a twin related by a renaming, an input or output "
        "permutation with transposed data, a parenthesised regrouping with reshaped data, or (for pure rearrangements) the inverse / a composition; results must be "
        "bit-identical for integer data. Exploration only.",
        "Trusted: numpy transpose/reshape used to build twins; einx is compared with itself, so a defect that is itself equivariant is left to C01.",
        "DESIGN.md §4 C08",
    ),
    "C09": (
        "property-based testing with memory-layout injection and before/after snapshots of every argument (Hypothesis)",
        "Generated-input search: generated calls of all families, solve_*/matches and graph=True requests are run with arguments in drawn layouts "
        "(transposed and strided views, read-only broadcast views, writeable=False) and size objects of several kinds; byte-level snapshots of base buffers, "
        "shapes, strides, dtypes and flags must be unchanged (first *_at tensor excepted), and read-only inputs must not break a call. Exploration only.",
        "Trusted: numpy flags/strides/tobytes as observation of mutation. numpy-family backends only.",
        "DESIGN.md §4 C09",
    ),
    "C13": (
        "property-based testing with instrumented tensor factories over call histories (first call, cached repeat, graph=True, solve, rejected, misbehaving)",
        "Generated-input search over operations, descriptions, factory positions and factory signature kinds; an invocation log is the oracle for "
        "'exactly once, with the resolved shape, declared keywords only, never at compile/graph/solve/rejection time', results are compared with the plain call "
        "and wrong factory outputs must make the call fail. Exploration only.",
        "Trusted: the generator's reference shapes (expr.shape_of), the instrumentation closures. The 'contributes no constraint' clause is only asserted where the "
        "dropped size is definitely undetermined.",
        "DESIGN.md §4 C13",
    ),
    "C17": (
        "property-based testing over pairs of axis-length assignments: AST whitelist + integer-masked AST equality of the generated code (Hypothesis)",
        "Generated-input search over descriptions, backends and four rescalings of all axis lengths > 1 (up to 64; small lengths that coincide with shifts / numeric axes; all equal): the emitted source must stay within a whitelist of "
        "straight-line AST node kinds and must be identical up to integer literals across rescalings that preserve the length-1 pattern, across two further traces of the same call (compile cache cleared) and across three interpreters with different PYTHONHASHSEED. Compilation only. Exploration only.",
        "Trusted: Python's ast module. numpy-family backends plus vmap-style code (nested function definitions) from the loop-vmap double.",
        "DESIGN.md §4 C17",
    ),
    "C16": (
        "differential property-based testing across fresh interpreters with varied PYTHONHASHSEED and deterministic uuid4 draws (Hypothesis-generated corpora)",
        "Generated-input search over call corpora executed in 6 (quick) / 12 (thorough) child processes that differ in hash seed, uuid draw order, call order "
        "and repetition count; outcomes must agree (ints bit-identical, floats up to re-association, same exception class) and graph=True text must be stable within a process, "
        "also after clearing the compile cache. Exploration only.",
        "Trusted: the child runner einxverif/c16_child.py; uuid.uuid4 is replaced inside the children to explore identifier draws deterministically (run-time interposition, no source hook).",
        "DESIGN.md §4 C16",
    ),
    "C07": (
        "metamorphic property-based testing of (long form, short form) pairs for every documented shorthand (Hypothesis)",
        "Generated-input search: for 14 shorthand rewrites, pairs of public calls on identical data must agree in shape and value or raise the same exception class; "
        "documented-ambiguous implicit outputs must raise SemanticError. Exploration only.",
        "Trusted: the rewrite functions in einxverif/props/c07.py (each implements the expansion the documentation states); einx is compared with itself, C01 pins the meaning of long forms.",
        "DESIGN.md §4 C07",
    ),
    "C12": (
        "bounded-exhaustive enumeration of token sequences + property-based text fuzzing + (thorough tier) coverage-guided atheris/libFuzzer campaigns, all with round-trip / spacing / quoting oracles",
        "Every token sequence up to the bound is enumerated (exhaustive: true for that sub-space) and random text, printed valid descriptions, token mutations and "
        "deep nestings are generated; oracles: totality (tree or einx SyntaxError quoting the caller's string with in-range carets), parse(str(tree)) == tree, invariance "
        "under redundant spaces, and no SyntaxError about foreign text from public operations. Exhaustive within the bound, exploration beyond.",
        "Trusted: the harness's definition of 'redundant space' (DESIGN C12 guards) and its structural tree normal form (unnamed-axis identity and ellipsis ids normalised).",
        "DESIGN.md §4 C12",
    ),
    "C03": (
        "property-based fuzzing of all public entry points (arbitrary / mutated / seeded descriptions) + single-edit corruption of generated valid calls with a constructive ill-formedness judge",
        "Generated-input search in three layers: arbitrary and mutated text against every entry point with an exception-class oracle; one certain-by-construction "
        "ill-forming edit applied to a valid generated call, which must be rejected with a documented class, return nothing and never reach the compiled function; "
        "many-operand calls. Failures are bucketed by (class, innermost einx frame). Exploration only.",
        "Trusted: the reference unit propagation (expr.propagate) used to certify that an edit makes the call unsatisfiable; the L1 layer never claims ill-formedness.",
        "DESIGN.md §4 C03",
    ),
    "C02": (
        "differential property-based testing of solve_axes / solve_shapes / matches against an independent exhaustive reference solver (Hypothesis)",
        "Generated-input search over expression lists, known/unknown shapes and keyword variants (minimal, under-determined, redundant, contradicted, non-divisible, "
        "changed dimension, scalar/tuple ellipsis sizes, values crossing 2**31); the reference enumerates the complete solution set, which decides soundness (unique, existing, "
        "exact), mandatory rejection (empty / ambiguous) and mandatory success (unit propagation). Exploration only.",
        "Trusted: einxverif/refsolve.py and expr.propagate (plain Python integer arithmetic). Depth-1 ellipses only; enumeration is skipped (and counted) beyond 2e5 candidates.",
        "DESIGN.md §4 C02, §3 S3",
    ),
    "C05": (
        "translation-validation style property-based testing: every recorded/constructed (graph, optimised graph) pair is interpreted on concrete tensors; bounded-exhaustive enumeration of transpose/reshape chains",
        "Generated-input search plus exhaustive enumeration of the listed chain sub-spaces: both graphs of each pair are evaluated node by node by an independent interpreter on tensors "
        "with all-distinct entries (distinct and equal dimension lengths); outputs, shapes and in-place effects must agree, the optimiser's pass count is bounded. "
        "Exhaustive within sub-space (b), exploration elsewhere.",
        "Trusted: einxverif/graphs.py interpreter; numpy as the meaning of the called functions. Pairs come from run-time interposition on einx._src.tracer.optimize (no source hook).",
        "DESIGN.md §4 C05, §3 S4",
    ),
    "C04": (
        "translation validation by property-based testing: recorded (graph, text, callable) triples of real calls and synthetic IR graphs are executed and compared with an independent graph interpreter",
        "Generated-input search: (A) for generated real calls the returned text must be the compiled text, be self-contained, have the same code object as the executed callable, and agree with a "
        "node-by-node interpretation of the recorded graph (results, in-place effects, number of calls); (B) synthetic graphs over all IR node kinds with instrumented callables are compiled and compared "
        "on results, multiset of calls and final mutable state. Exploration only.",
        "Trusted: einxverif/graphs.py interpreter (eager, one evaluation per node and scope activation). Recording is run-time interposition on einx._src.tracer.compiler.python.compile.",
        "DESIGN.md §4 C04, §3 S4",
    ),
    "C11": (
        "stateful model-based property testing (Hypothesis RuleBasedStateMachine) of fresh BackendRegistry objects against a reference model of the documented precedence; fault-injected child interpreters",
        "Generated histories of registrations (eager / on-import, healthy / failing factories, any order), module imports, nested enter/exit and lookups are compared step by step with a 40-line "
        "model of the documented selection chain; child interpreters with broken fake framework modules check isolation of import failures. Exploration only.",
        "Trusted: the reference model in einxverif/props/c11.py. Synthetic frameworks follow the property's own quantifier (disjoint tensor types, one registration step per framework).",
        "DESIGN.md §4 C11",
    ),
    "C15": (
        "property-based testing of einx.numpy.adapt_numpylike_reduce / adapt_numpylike_elementwise and of adapt_with_vmap (einx's jax front-end over a loop-vmap test double) with instrumented user functions against the loop-semantics interpreter, over short call histories",
        "Generated-input search over descriptions, user functions, keyword-only option values (incl. nan/inf, quotes, newlines, containers, numpy scalars) and repeated calls; oracles: loop semantics "
        "with the same function as elementary operation, the documented argument conventions (axis tuple / equal-rank broadcastable tensors / bracketed sub-tensors), options forwarded == and type-identical, option names never "
        "usable as axes, wrong outputs (type, shaped non-tensor, rank, shape, arity) rejected. Two defects of option forwarding are listed as known findings. Exploration only.",
        "Trusted: einxverif/loopsem.py; adapt_with_vmap runs over numpy + a Python-loop vmap (einxverif/loopvmap.py): the einx side of the contract is exercised, the real jax/torch vmap is not.",
        "DESIGN.md §4 C15",
    ),
    "C06": (
        "history-based property testing: generated call histories run in one interpreter are compared step by step with the same call in a pristine forked interpreter (differential against a zygote)",
        "Generated-input search over call histories with exact repetitions, hash-equal twins, failing calls at every stage, adapters, solve_* and nested with-blocks; every step's outcome digest "
        "(values, code up to naming, exception class) must equal the outcome of that call alone in a pristine fork, and no with-stack / tracing state may leak. Exploration only.",
        "Trusted: fork() of a zygote that imported einx without calling it as stand-in for a fresh interpreter; digests compare floats with rtol 1e-8.",
        "DESIGN.md §4 C06, §3 S5",
    ),
    "C10": (
        "schedule-controlled concurrency testing: Hypothesis-drawn thread programs and interleavings executed by a deterministic sys.settrace scheduler; linearizability check against a sequential model",
        "Generated-input search over thread programs and schedules (pre-emption at source-line granularity inside einx's registry, API, cache, tracing-stack and compile entry code, cooperative lock); "
        "every run's outcomes and final registry state must be reproducible by some sequential order of the steps. Sampling of interleavings, not enumeration. Exploration only.",
        "Trusted: the scheduler einxverif/sched.py (a stall is inconclusive), the sequential model in props/c10.py. No claim about pre-emption inside C code, liveness or free-threaded builds.",
        "DESIGN.md §4 C10, §3 S6",
    ),
}
NOT_YET = "check not built yet in this round (see DESIGN.md §8 build order); the property has an executable oracle and will be claimed once its check is registered"

def main():
    checks = []
    for pid, (tech, text, note, ref) in sorted(CLAIMED.items()):
        checks.append({
            "property_id": pid,
            "quick_cmd": f"./check {pid} --tier quick",
            "thorough_cmd": f"./check {pid} --tier thorough",
            "evidence_file": f"evidence/{pid}.json",
            "replay_cmd_template": f"./check {pid} --replay {{path}}",
            "engine": "einxverif",
            "level_claimed": {"category": "exploration", "text": text, "design_ref": ref},
            "level_note": note,
            "technique": tech,
        })
    na = [{"property_id": pid, "reason": NOT_YET} for pid in sorted(TITLES) if pid not in CLAIMED]
    assert not na, na
    m = {
        "version": 1,
        "setup_cmd": "./setup.sh",
        "hooks": {
            "guard": "EINX_VERIF",
            "enable": "no source hooks: all observation is done by run-time interposition from /verif on the imported einx modules (PYTHONPATH=/repo)",
            "baseline_off_cmd": "cd /repo && /venv/bin/python -m pytest -ra -q -p no:cacheprovider --timeout=900 --continue-on-collection-errors",
            "source_commits": [],
            "add_only": True,
        },
        "engines": [{"name": "einxverif", "path": "einxverif/", "serves_properties": sorted(CLAIMED), "kind_free_text": "Hypothesis property-based testing / fuzzing harness with reference oracles"}],
        "checks": checks,
        "notes": "fix: commits in /repo (genuine defects repaired): see known_findings.json entries with status 'fixed'.",
        "not_applicable": na,
    }
    json.dump(m, open(os.path.join(HERE, "MANIFEST.json"), "w"), indent=1)
    print("wrote MANIFEST.json with", len(checks), "checks")

main()
